"""C03 — parse trees are well-formed and indentation markers balance."""
from harness import corpus

LEVEL = "proof"
COQ_TARGETS = ["theories/Properties/C03.vo"]
PROPERTY_FILES = ["theories/Properties/C03.v"]
RULE = ("end-to-end on real parse trees: fixtures of every bundled dialect + token-level mutations (incl. unbalanced brackets, truncation); per "
        "node: templated span = first child start .. last child stop, source span = hull of children, children in non-decreasing templated "
        "order, no node other than file/unparsable begins or ends with a non-code non-meta segment; over leaves: running indent balance >= 0 and "
        "0 at the end. The theorem (Coq) covers span/order for every tree MatchResult.apply can build from a certified result; C02's check ties "
        "that model to the code. non-trivial = tree with >= 20 tokens or an unparsable node; distinct by (dialect, sql)")
ASSUMPTIONS = ["PositionMarker.from_child_markers is the hull of the children (observed on every node by the monitor)",
               "per-dialect indent flow analysis (DESIGN §7 IndentFlow) is not built: balance is monitored, not proved"]
TRUSTED_BASE = ["hand model Model/MatchResult.v (tied to the code by C02's correspondence)", "harness/treecheck.py tree walker"]


def run(ctx, coq_ok):
    rng = ctx.rng
    per = 4 if ctx.tier == "quick" else 30
    muts = 3 if ctx.tier == "quick" else 5
    items = corpus.corpus(rng, per, muts, max_chars=1500 if ctx.tier == "quick" else 5000)
    jobs = [(d, label, sql, False) for (d, label, sql) in items]
    for (d, label, sql, _w), st, res in corpus.pmap("harness.treecheck", "parse_case", jobs):
        if st != "ok":
            ctx.broken_obligation("harness worker crashed on %s/%s" % (d, label), res)
            continue
        nontriv = (res["unparsable"] or 0) > 0 or res["ntokens"] >= 20
        ctx.case(("tree", d, sql) if nontriv else None,
                 bucket="tree:%s" % ("exc" if res["exc"] else "fatal" if res["fatal_prs"] else "unparsable" if res["unparsable"] else "clean"),
                 sample={"dialect": d, "file": label, "tokens": res["ntokens"], "unparsable_nodes": res["unparsable"]} if nontriv and "~" in label else None)
        for key, what in res["c03"]:
            ctx.violation("tree-" + key, "%s (dialect %s)" % (what, d), {"input": {"dialect": d, "label": label, "sql": sql}},
                          attrs={"kind": key, "unparsable": bool(res["unparsable"])})
    ctx.coverage_extra["parsed_files"] = len(items)
