"""C32 — linting is read-only and repeatable."""
import builtins
import json
import os
import shutil
import subprocess
import sys
import tempfile

from harness import core, corpus

LEVEL = "proof"
COQ_TARGETS = ["theories/Properties/C32.vo"]
PROPERTY_FILES = ["theories/Properties/C32.v"]
RULE = ("histories: a pool of files (several dialects via nested .sqlfluff files, jinja with for/if blocks, python and placeholder templaters, files that fail "
        "to template / lex / parse, noqa directives, disable_noqa_except) is processed in one process by seeded random sequences of lint / parse / render "
        "(each file many times, in different orders) and every result is compared with the result of the same operation in a FRESH process; "
        "read-only: bytes, mtimes and the directory listing of the pool are snapshotted around the API operations and around the CLI commands lint, "
        "parse and render, and every open() in a writing mode below the pool is recorded. non-trivial = an operation preceded by >= 1 other "
        "operation in the same process; distinct by (history prefix hash, file, op)")
ASSUMPTIONS = ["PARTIAL: what is memoised between operations depends only on its key (validated by the history runs)",
               "violations are compared as (code, line, col, description); object identities, uuids and timings are not compared"]
TRUSTED_BASE = ["Model/ParseOpt.v cache model (shared with C06)", "snapshot / open() interception in this module"]

POOL = {
    ".sqlfluff": "[sqlfluff]\ndialect = ansi\ntemplater = jinja\n\n[sqlfluff:templater:jinja:context]\ncols = a,b\nflag = 1\n",
    "a.sql": "select a,b from t where  a=1\n",
    "b.sql": "SELECT {% for c in ['x','y'] %}{{ c }}  ,{% endfor %} 1 as  z from t {% if flag %}where 1=1{% endif %}\n",
    "c_noqa.sql": "select a  from t -- noqa: LT01\nselect b  from t -- noqa: disable=all\nselect 1\n",
    "d_tmp_fail.sql": "SELECT {{ 1 + }} FROM t\n",
    "e_prs_fail.sql": "SELECT a FROM t WHERE (b > 1\n",
    "f_lex.sql": "SELECT \x00 'unterminated FROM t\n",
    "g_undefined.sql": "SELECT {{ undefined_var }} FROM t {% if other_undefined %}x{% endif %}\n",
    "tsql/.sqlfluff": "[sqlfluff]\ndialect = tsql\ntemplater = raw\n",
    "tsql/h.sql": "select [a] , b from [t]\ngo\nselect 2\n",
    "pg/.sqlfluff": "[sqlfluff]\ndialect = postgres\ntemplater = placeholder\ndisable_noqa_except = LT01\n\n[sqlfluff:templater:placeholder]\nparam_style = colon\nx = 5\n",
    "pg/i.sql": "select a::int , :x from t where b = :y -- noqa: CP01\n",
    "py/.sqlfluff": "[sqlfluff]\ndialect = ansi\ntemplater = python\n\n[sqlfluff:templater:python:context]\ntbl = my_t\n",
    "py/j.sql": "select a  from {tbl}\n",
    "k_block.sql": "{% macro m(x) %}{{ x }}_c{% endmacro %}select {{ m('a') }} ,b\nfrom t\n{% for i in range(2) %}-- c{{ i }}\n{% endfor %}",
}

DRIVER = r'''
import json, sys, os
os.chdir(sys.argv[1])
ops = json.loads(sys.argv[2])
import logging; logging.disable(logging.CRITICAL)
from sqlfluff.core import Linter, FluffConfig
def canon_v(vs): return sorted([v.rule_code(), v.line_no, v.line_pos, v.desc()[:120]] for v in vs)
def do(op, path):
    try:
        lnt = Linter(config=FluffConfig.from_path(path))
        if op == "lint":
            res = lnt.lint_paths((path,))
            return ["lint", [canon_v(f.get_violations(filter_ignore=False, filter_warning=False)) for d in res.paths for f in d.files]]
        if op == "parse":
            out = []
            for p in lnt.parse_path(path):
                out.append([canon_v(p.violations), None if p.tree is None else [s.raw for s in p.tree.raw_segments], None if p.tree is None else p.tree.to_tuple(show_raw=True)])
            return ["parse", json.loads(json.dumps(out))]
        if op == "render":
            r = lnt.render_file(path, lnt.config)
            return ["render", [tf.templated_str for tf in r.templated_variants], canon_v(r.templater_violations)]
    except BaseException as e:
        return ["exc", type(e).__name__, str(e)[:200]]
print(json.dumps([do(op, path) for op, path in ops]))
'''


def snapshot(root):
    snap = {}
    for dp, dn, fn in os.walk(root):
        for f in fn:
            p = os.path.join(dp, f)
            st = os.stat(p)
            with open(p, "rb") as fh:
                snap[os.path.relpath(p, root)] = (fh.read(), st.st_mtime_ns, st.st_mode)
    return snap


def run_driver(root, ops):
    env = dict(os.environ, PYTHONPATH=core.REPO + "/src", PYTHONHASHSEED="0")
    p = subprocess.run([sys.executable, "-c", DRIVER, root, json.dumps(ops)], capture_output=True, text=True, env=env, timeout=900)
    if p.returncode != 0:
        raise RuntimeError("driver failed: %s" % p.stderr[-800:])
    return json.loads(p.stdout.strip().split("\n")[-1])


def run(ctx, coq_ok):
    import logging
    logging.disable(logging.CRITICAL)
    from concurrent.futures import ThreadPoolExecutor
    rng = ctx.rng
    root = tempfile.mkdtemp(prefix="verif-c32-", dir=os.environ.get("TMPDIR") or "/var/tmp")
    try:
        for rel, content in POOL.items():
            p = os.path.join(root, rel)
            os.makedirs(os.path.dirname(p), exist_ok=True)
            with open(p, "w", encoding="utf-8", newline="") as f:
                f.write(content)
            os.utime(p, (1000000000, 1000000000))
        files = sorted(r for r in POOL if r.endswith(".sql"))
        before = snapshot(root)
        # fresh process per (file): all three ops
        fresh = {}
        with ThreadPoolExecutor(max_workers=8) as ex:
            for f, res in zip(files, ex.map(lambda f: run_driver(root, [(op, f) for op in ("lint", "parse", "render")]), files)):
                for op, r in zip(("lint", "parse", "render"), res):
                    fresh[(op, f)] = r
        # histories: one process, random sequences
        nh = 3 if ctx.tier == "quick" else 12
        hl = 30 if ctx.tier == "quick" else 80
        hists = [[(rng.choice(["lint", "parse", "render"]), rng.choice(files)) for _ in range(hl)] for _ in range(nh)]
        with ThreadPoolExecutor(max_workers=6) as ex:
            results = list(ex.map(lambda h: run_driver(root, h), hists))
        for h, res in zip(hists, results):
            for k, ((op, f), r) in enumerate(zip(h, res)):
                ctx.case(("hist", repr(h[:k]), op, f) if k else None, bucket="history:%s" % op,
                         sample={"history_before": h[max(0, k - 3):k], "op": op, "file": f, "result_head": str(r)[:100]} if k == 5 and len(ctx.samples) < 3 else None)
                if r != fresh[(op, f)]:
                    ctx.violation("history-dependent", "%s of %s after %d other operations differs from the same operation in a fresh process" % (op, f, k),
                                  {"input": {"pool": POOL, "history": h[:k + 1]}, "in_history": r, "fresh": fresh[(op, f)]}, attrs={"op": op, "file": f})
        after = snapshot(root)
        if after != before:
            changed = sorted(set(after) ^ set(before)) + sorted(k for k in before if k in after and after[k] != before[k])
            ctx.violation("input-modified", "lint/parse/render through the API changed the file tree: %r" % changed[:5], {"input": {"pool": POOL}, "changed": changed}, attrs={"via": "api"})
        # CLI commands with open() interception
        from click.testing import CliRunner
        from sqlfluff.cli.commands import lint, parse, render
        writes = []
        real_open = builtins.open

        def spy_open(file, mode="r", *a, **k):
            try:
                if any(c in mode for c in "wax+") and isinstance(file, (str, bytes, os.PathLike)) and os.path.abspath(os.fspath(file)).startswith(root):
                    writes.append((os.fspath(file), mode))
            except Exception:  # noqa
                pass
            return real_open(file, mode, *a, **k)
        cwd = os.getcwd()
        os.chdir(root)
        builtins.open = spy_open
        try:
            for cmd, args in ((lint, ["a.sql", "b.sql", "tsql", "pg", "--disable-progress-bar"]), (lint, [".", "--format", "json", "--disable-progress-bar", "--processes", "2"]),
                              (parse, ["a.sql", "k_block.sql"]), (parse, ["e_prs_fail.sql", "--format", "yaml"]), (render, ["b.sql"]), (render, ["g_undefined.sql"]), (render, ["d_tmp_fail.sql"])):
                r = CliRunner().invoke(cmd, args)
                ctx.case(("cli", cmd.name, tuple(args)), bucket="cli:%s" % cmd.name)
                if r.exception is not None and not isinstance(r.exception, SystemExit):
                    ctx.violation("cli-raises", "sqlfluff %s %s raised %r" % (cmd.name, args, r.exception), {"input": {"pool": POOL, "cmd": cmd.name, "args": args}}, attrs={"cmd": cmd.name})
        finally:
            builtins.open = real_open
            os.chdir(cwd)
        after2 = snapshot(root)
        if after2 != before:
            changed = sorted(set(after2) ^ set(before)) + sorted(k for k in before if k in after2 and after2[k] != before[k])
            ctx.violation("input-modified", "sqlfluff lint/parse/render (CLI) changed the file tree: %r" % changed[:5], {"input": {"pool": POOL}, "changed": changed}, attrs={"via": "cli"})
        if writes:
            ctx.violation("write-open", "a read-only command opened a file under the inputs for writing: %r" % writes[:3], {"input": {"pool": POOL}, "writes": writes}, attrs={"via": "cli"})
        ctx.coverage_extra["operations_compared"] = sum(len(h) for h in hists)
        ctx.coverage_extra["files_snapshotted"] = len(before)
    finally:
        shutil.rmtree(root, ignore_errors=True)
