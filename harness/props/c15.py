"""C15 — capitalisation fixes change only letter case."""
import glob
import itertools
import os
import random
import traceback

from harness import coq

LEVEL = "proof"
COQ_TARGETS = ["theories/Properties/C15.vo"]
PROPERTY_FILES = ["theories/Properties/C15.v"]
RULE = ("correspondence: the six transforms of CP01._handle_segment on ALL strings over {a,B,1,_,space} up to length 5 (quick) / {a,B,z,1,_,space} "
        "up to 5 (thorough), pascal/camel also over {a,B,1,_,e-acute,sharp-s}; the whole _handle_segment (refuted-cases inference, "
        "latest_possible_case, skip, fix) on ALL token sequences up to length 3 over a 7-word (quick) / 8-word (thorough) pool x every policy of CP01 and CP02, plus seeded "
        "random sequences with ignore_words / ignore_words_regex and a malformed stream (control characters, full ASCII). monitor: real Linter fix "
        "runs, each CP rule x each valid policy (+ all five rules together) on dialect fixtures of every dialect and case/comment/non-ASCII/"
        "token mutations of them, token-wise comparison of input and output. non-trivial = a fix run that changed the text; distinct = "
        "distinct (dialect, file, mutation, rules+policies)")
ASSUMPTIONS = [
    "the model's case functions are ASCII: upper/lower/capitalise/snake and the refuted-cases inference are modelled for ASCII text "
    "(pascal/camel for all code points); non-ASCII behaviour of str.upper/lower/capitalize is covered by the monitor only",
    "the targeting of segments (crawler types, excluded parents, identifier policy) is abstract in the model (`target`); the theorem holds for every targeting",
    "apply_fixes applies the single replace fixes of one crawl point-wise (checked end to end by the monitor, proved in general by C11/C30 machinery)",
]
TRUSTED_BASE = ["hand model Model/Caps.v of Rule_CP01._handle_segment / _get_fix (tied by exhaustive small-scope correspondence)",
                "sqlfluff lexer used by the monitor to tokenise input and output"]

NAMES = {"CP01": "capitalisation.keywords", "CP02": "capitalisation.identifiers", "CP03": "capitalisation.functions",
         "CP04": "capitalisation.literals", "CP05": "capitalisation.types"}
BASIC = ["consistent", "upper", "lower", "capitalise"]
EXT = BASIC + ["pascal", "snake", "camel"]
PCON = {"upper": "PUpper", "lower": "PLower", "capitalise": "PCapitalise", "pascal": "PPascal", "camel": "PCamel", "snake": "PSnake"}
PCODE = {"upper": 1, "lower": 2, "capitalise": 3, "pascal": 4, "camel": 5, "snake": 6}
SIX = ["upper", "lower", "capitalise", "pascal", "camel", "snake"]
FIXTURES = "/repo/test/fixtures/dialects"


def policy_key(rule):
    return "capitalisation_policy" if rule in ("CP01", "CP04") else "extended_capitalisation_policy"


def policies_of(rule):
    return BASIC if rule in ("CP01", "CP04") else EXT


def make_cfg(dialect, rules_pol, extra=None, feu=False):
    from sqlfluff.core import FluffConfig
    sect = {}
    for r, p in rules_pol.items():
        sect[NAMES[r]] = {policy_key(r): p}
        if extra:
            sect[NAMES[r]].update(extra)
    ov = {"dialect": dialect, "rules": ",".join(sorted(rules_pol)), "templater": "raw"}
    if feu:
        ov["fix_even_unparsable"] = True
    return FluffConfig(overrides=ov, configs={"rules": sect})


# ----------------------------------------------------------------------------------------------------------------------
# Hashing shared by the Coq side (DEFS) and the Python side: results are compared inside coqc, only digests are printed
# (printing thousands of code-point lists is what is slow in coqc, not computing them).

HP = 2305843009213693951
CHUNK = 256

DEFS = """
Definition HP : N := 2305843009213693951%N.
Definition hmix (h x : N) : N := N.modulo (h * 1000003 + x + 1)%N HP.
Definition hash_text (s : text) : N := fold_left hmix s 7%N.
Fixpoint chunks {A} (fuel n : nat) (l : list A) : list (list A) :=
  match fuel with 0 => [] | S f => match l with [] => [] | _ => firstn n l :: chunks f n (skipn n l) end end.
Definition chunk_hashes (l : list N) : list N := map (fun c => fold_left hmix c 13%N) (chunks (length l) 256 l).
Definition pcode (p : policy) : N := (match p with PUpper => 1 | PLower => 2 | PCapitalise => 3 | PPascal => 4 | PCamel => 5 | PSnake => 6 end)%N.
Definition enc_step (r : option (policy * text) * (list bool * option policy)) : text :=
  let '(fx, (bits, lat)) := r in
  (map (fun b : bool => if b then 1 else 0) bits ++ [match lat with Some p => pcode p | None => 0 end] ++
   match fx with None => [0] | Some (p, t) => [1; pcode p] ++ t end)%N.
Definition enc_trace (l : list (option (policy * text) * (list bool * option policy))) : N :=
  fold_left hmix (map (fun r => hash_text (enc_step r)) l) 11%N.
Definition skip_of (words rx : list text) (raw : text) : bool := skip_words words raw || existsb (text_eqb raw) rx.
Definition run_trace (c : cap_policy * list policy * list text * list text * list text) : N :=
  let '(cap, opts, words, rx, raws) := c in enc_trace (trace cap opts (skip_of words rx) mem0 raws).
Definition closure2 (cands : list policy) (a b : text) : bool :=
  text_eqb a b || existsb (fun p => text_eqb (apply_policy p a) b
                                    || existsb (fun q => text_eqb (apply_policy q (apply_policy p a)) b) cands) cands.
Definition fix_explained (c : N * text * text) : bool :=
  let '(k, a, b) := c in
  match k with
  | 0%N => closure2 [PUpper; PLower; PCapitalise] a b
  | 1%N => closure2 [PUpper] a b | 2%N => closure2 [PLower] a b | 3%N => closure2 [PCapitalise] a b
  | 4%N => closure2 [PPascal] a b | 5%N => closure2 [PCamel] a b | _ => closure2 [PSnake] a b
  end.
"""


def hmix(h, x):
    return (h * 1000003 + x + 1) % HP


def hash_text(cps):
    h = 7
    for c in cps:
        h = hmix(h, c)
    return h


def chunk_hashes(ns):
    out = []
    for i in range(0, len(ns), CHUNK):
        h = 13
        for x in ns[i:i + CHUNK]:
            h = hmix(h, x)
        out.append(h)
    return out


def enc_step(fx, bits, lat):
    out = [1 if b else 0 for b in bits] + [PCODE[lat] if lat else 0]
    if fx is None:
        out.append(0)
    else:
        out += [1, PCODE[fx[0]]] + [ord(c) for c in fx[1]]
    return out


def enc_trace(steps):
    h = 11
    for s in steps:
        h = hmix(h, hash_text(enc_step(*s)))
    return h


# ----------------------------------------------------------------------------------------------------------------------
# The real code: one rule object per (rule, policy, extra config), _handle_segment called on a real RawSegment


class Real:
    def __init__(self):
        from sqlfluff.core.parser.markers import PositionMarker
        from sqlfluff.core.templaters.base import TemplatedFile
        self.pm = PositionMarker(slice(0, 0), slice(0, 0), TemplatedFile.from_string("x"))
        self.cache = {}

    def rule(self, code, policy, extra=None):
        from sqlfluff.core import Linter
        key = (code, policy, repr(sorted((extra or {}).items())))
        if key not in self.cache:
            cfg = make_cfg("ansi", {code: policy}, extra)
            rp = Linter(config=cfg).get_rulepack(config=cfg)
            assert [r.code for r in rp.rules] == [code], [r.code for r in rp.rules]
            self.cache[key] = (rp.rules[0], cfg)
        return self.cache[key]

    def handle(self, code, policy, raw, memory, extra=None):
        """-> (fix or None as (concrete policy, fixed raw), memory)"""
        from sqlfluff.core.parser.segments.raw import RawSegment
        from sqlfluff.core.rules.context import RuleContext
        ruleobj, cfg = self.rule(code, policy, extra)
        seg = RawSegment(raw, self.pm)
        rctx = RuleContext(dialect=cfg.get("dialect_obj"), fix=True, templated_file=None, path=None, config=cfg, segment=seg,
                           memory=memory)
        res = ruleobj._handle_segment(seg, rctx)
        fx = None
        if res.fixes:
            f = res.fixes[0]
            if not (len(res.fixes) == 1 and f.edit_type == "replace" and f.anchor is seg and len(f.edit) == 1
                    and type(f.edit[0]) is type(seg) and res.anchor is seg):
                raise AssertionError("CP fix is not a single replace(anchor, [anchor.edit(raw)]): %r" % (res.fixes,))
            d = res.description or ""
            if d.endswith("capitalised."):
                conc = "capitalise"
            else:
                conc = d.rsplit(" case.", 1)[0].rsplit(" ", 1)[-1]
            fx = (conc, f.edit[0].raw)
        elif res.anchor is not None:
            raise AssertionError("LintResult with anchor but no fix")
        return fx, res.memory

    def transform(self, policy, raw):
        """the concrete transform alone: memory in which every case is refuted, so the transform is always applied"""
        code = "CP02"
        mem = {"refuted_cases": set(SIX), "latest_possible_case": policy}
        fx, _ = self.handle(code, policy, raw, mem)
        return raw if fx is None else fx[1]

    def trace(self, code, policy, raws, extra=None):
        mem = {}
        out = []
        for raw in raws:
            fx, mem = self.handle(code, policy, raw, mem, extra)
            ref = mem.get("refuted_cases", set())
            out.append((fx, [p in ref for p in SIX], mem.get("latest_possible_case")))
        return out

    def opts(self, code, policy):
        ruleobj, cfg = self.rule(code, policy)
        if not hasattr(ruleobj, "cap_policy_opts"):
            self.handle(code, policy, "x", {})
        return list(ruleobj.cap_policy_opts)


def ccap(policy):
    return "Consistent" if policy == "consistent" else "(Explicit %s)" % PCON[policy]


def copts(opts):
    return coq.clist([PCON[o] for o in opts])


def ctexts(l):
    return coq.clist([coq.ctext(x) for x in l]) if l else "(@nil text)"


def check_structure(ctx):
    """model assumption: CP02..CP05 reuse CP01's _handle_segment; the option lists are the ones the model is run with"""
    real = Real()
    classes = {code: type(real.rule(code, "consistent")[0]) for code in sorted(NAMES)}
    for code, cls in classes.items():
        if cls._handle_segment is not classes["CP01"]._handle_segment:
            ctx.broken_obligation("model assumption: %s inherits Rule_CP01._handle_segment" % cls.__name__, "overridden")
    from sqlfluff.core.rules.config_info import get_config_info
    info = get_config_info()
    got = {k: list(info[k]["validation"]) for k in ("capitalisation_policy", "extended_capitalisation_policy")}
    if sorted(got["capitalisation_policy"]) != sorted(BASIC) or sorted(got["extended_capitalisation_policy"]) != sorted(EXT):
        ctx.broken_obligation("model assumption: the valid capitalisation policies are the seven modelled ones", repr(got))
    ctx.coverage_extra["policy_options"] = got


def correspondence(ctx, coq_ok):
    real = Real()
    thorough = ctx.tier == "thorough"
    imports = ["Base.Enum", "Model.Caps"]
    terms, expect, locate = [], [], []

    # (1) transforms, exhaustive
    alpha = "aBz1_ " if thorough else "aB1_ "
    maxlen = 5
    strings = ["".join(t) for n in range(maxlen + 1) for t in itertools.product(alpha, repeat=n)]
    for p in SIX:
        outs = [real.transform(p, s) for s in strings]
        for s, o in zip(strings, outs):
            ctx.case(("T", p, s) if o != s else None, bucket="transform-" + p,
                     sample={"policy": p, "raw": s, "fixed": o} if (o != s and len(s) == 4 and s[0] == "a" and p == "snake") else None)
        items = "(map (apply_policy %s) (strings_upto %s %d))" % (PCON[p], coq.ctext(alpha), maxlen)
        terms.append("chunk_hashes (map hash_text %s)" % items)
        expect.append(chunk_hashes([hash_text([ord(c) for c in o]) for o in outs]))
        locate.append(("apply_policy %s vs CP01._handle_segment transform" % p, items, strings, outs))
    # pascal / camel are modelled for all code points
    alpha2 = "aB1_éß"
    maxlen2 = 5 if thorough else 4
    strings2 = ["".join(t) for n in range(maxlen2 + 1) for t in itertools.product(alpha2, repeat=n)]
    for p in ("pascal", "camel"):
        outs = [real.transform(p, s) for s in strings2]
        for s, o in zip(strings2, outs):
            ctx.case(("T", p, s) if o != s else None, bucket="transform-nonascii-" + p)
        items = "(map (apply_policy %s) (strings_upto %s %d))" % (PCON[p], coq.ctext(alpha2), maxlen2)
        terms.append("chunk_hashes (map hash_text %s)" % items)
        expect.append(chunk_hashes([hash_text([ord(c) for c in o]) for o in outs]))
        locate.append(("apply_policy %s (non-ASCII alphabet) vs CP01._handle_segment transform" % p, items, strings2, outs))

    # (2) the whole _handle_segment on all token sequences up to length 3 over a word pool, every policy of CP01 and CP02
    pool = ["select", "FROM", "Where", "fooBar", "a1", "_X", "+", "Ab_cD"] if thorough else ["select", "FROM", "Where", "fooBar", "a1", "_x", "+"]
    seqs = [list(t) for n in range(4) for t in itertools.product(pool, repeat=n)]
    for code in ("CP01", "CP02"):
        for pol in policies_of(code):
            opts = real.opts(code, pol)
            traces = [real.trace(code, pol, s) for s in seqs]
            for s, tr in zip(seqs, traces):
                nfix = sum(1 for st in tr if st[0])
                ctx.case(("S", code, pol, tuple(s)) if nfix else None, bucket="sequence-%s-%s" % (code, pol),
                         sample={"rule": code, "policy": pol, "raws": s, "fixes": [st[0] for st in tr]} if (nfix == 2 and pol == "consistent" and code == "CP01") else None)
            items = "(map (fun raws => trace %s %s (fun _ => false) mem0 raws) (strings_upto %s 3))" % (ccap(pol), copts(opts), ctexts(pool))
            terms.append("chunk_hashes (map enc_trace %s)" % items)
            expect.append(chunk_hashes([enc_trace(tr) for tr in traces]))
            locate.append(("trace/handle_segment (%s, %s) vs %s._handle_segment over sequences" % (code, pol, code), items, seqs, traces))

    # (3) seeded random sequences with ignore_words / ignore_words_regex; (4) malformed stream: full ASCII incl. control characters
    import regex
    rng = ctx.rng
    words = ["select", "SELECT", "Select", "sELECT", "from", "FROM", "From", "fooBar", "FooBar", "foo_bar", "FOO_BAR", "a1", "A1", "a1B", "_x",
             "_X", "1a", "1A", "+", "||", "x", "X", "Ab", "aB", "AB", "ab", "NULL", "null", "Null", "tRUE", "Int", "INT", "int4", "VarChar"]
    nrand = 1500 if thorough else 300
    lits, exp, meta = [], [], []
    for i in range(nrand):
        code = rng.choice(["CP01", "CP02", "CP02", "CP03", "CP04", "CP05"])
        pol = rng.choice(policies_of(code))
        malformed = i % 4 == 3
        n = rng.randrange(1, 8)
        if malformed:
            raws = ["".join(chr(rng.choice([0, 9, 10, 13, 27, 32, 39, 34, 45, 64, 91, 96, 123, 127] + list(range(32, 127))))
                            for _ in range(rng.randrange(0, 7))) for _ in range(n)]
        else:
            raws = [rng.choice(words) if rng.random() < 0.8 else "".join(rng.choice("aAbB19_ $") for _ in range(rng.randrange(0, 6)))
                    for _ in range(n)]
        extra, iw, rxs = None, [], []
        mode = rng.randrange(4)
        if mode == 1:
            iw = rng.sample(["from", "foobar", "a1", "x", "null", "int"], 2)
            extra = {"ignore_words": ",".join(w.upper() if rng.random() < 0.5 else w for w in iw)}
        elif mode == 2:
            rx = rng.choice(["^[A-Z]", "_", "^f", "[0-9]$"])
            extra = {"ignore_words_regex": rx}
            rxs = sorted({r for r in raws if regex.search(rx, r)})
        tr = real.trace(code, pol, raws, extra)
        opts = real.opts(code, pol)
        nfix = sum(1 for st in tr if st[0])
        ctx.case(("R", code, pol, tuple(raws), repr(extra)) if nfix else None, bucket="random-malformed" if malformed else "random-sequence")
        lits.append("(%s, %s, %s, %s, %s)" % (ccap(pol), copts(opts), ctexts(iw), ctexts(rxs), ctexts(raws)))
        exp.append(enc_trace(tr))
        meta.append({"rule": code, "policy": pol, "raws": raws, "config": extra, "impl_trace": tr})
    if not coq_ok:
        return
    # one coqc run for everything (start-up dominates): digests of the exhaustive parts, then the random cases in groups of 100 (long list literals parse super-linearly)
    groups = list(coq.chunked(lits, 100))
    got_all = coq.eval_terms(imports, terms + ["map run_trace %s" % coq.clist(g) for g in groups], defs=DEFS)
    got, got_rand = got_all[:len(terms)], [x for part in got_all[len(terms):] for x in part]
    for g, e, (name, items, inputs, outs) in zip(got, expect, locate):
        if list(g) != list(e):
            bad = next((i for i, (a, b) in enumerate(zip(g, e)) if a != b), min(len(g), len(e)))
            detail = {"chunk": bad, "model_chunks": len(g), "impl_chunks": len(e)}
            try:
                part = coq.eval_terms(imports, ["firstn %d (skipn %d %s)" % (CHUNK, CHUNK * bad, items)], defs=DEFS)[0]
                detail["inputs"] = inputs[CHUNK * bad:CHUNK * bad + CHUNK][:40]
                detail["model"] = repr(part)[:3000]
                detail["impl"] = repr(outs[CHUNK * bad:CHUNK * bad + CHUNK])[:3000]
                if part and isinstance(part[0], list) and all(isinstance(x, int) for x in part[0]):
                    for i, m in enumerate(part):
                        ms = "".join(chr(c) for c in m)
                        if ms != outs[CHUNK * bad + i]:
                            detail = {"input": inputs[CHUNK * bad + i], "model": ms, "impl": outs[CHUNK * bad + i]}
                            break
            except Exception as e2:  # keep the digest mismatch
                detail["locate_error"] = repr(e2)
            ctx.broken_obligation("correspondence " + name, detail)
    ctx.coverage_extra["exhaustive_transform_strings"] = len(strings) * 6 + len(strings2) * 2
    ctx.coverage_extra["exhaustive_sequences"] = len(seqs) * 11
    if len(got_rand) != len(lits):
        raise coq.CoqError("random sequence results: %d for %d cases" % (len(got_rand), len(lits)))
    for g, e, m, lit in zip(got_rand, exp, meta, lits):
        if g != e:
            try:
                m["model_trace"] = repr(coq.eval_terms(imports, [
                    "let '(cap, opts, words, rx, raws) := %s in trace cap opts (skip_of words rx) mem0 raws" % lit], defs=DEFS)[0])
            except Exception as e2:
                m["locate_error"] = repr(e2)
            ctx.broken_obligation("correspondence trace/handle_segment vs _handle_segment (random sequence)", m)
            break
    ctx.coverage_extra["random_sequences"] = len(lits)


# ----------------------------------------------------------------------------------------------------------------------
# Monitor: the property itself on real fix runs

# parsed types (of the INPUT tree) whose unquoted word tokens the property allows to change case
ALLOWED = {"keyword", "binary_operator", "date_part", "naked_identifier", "properties_naked_identifier", "function_name_identifier",
           "bare_function", "data_type_identifier", "boolean_literal", "null_literal"}


UNLEX = {"<unlexable>": "word"}


def same_up_to_case(a, b):
    return a == b or a.casefold() == b.casefold() or a.lower() == b.lower() or a.upper() == b.upper()


def drop_us(s):
    return s.replace("_", "")


def lex(cfg, text):
    from sqlfluff.core.parser import Lexer
    segs, _ = Lexer(config=cfg).lex(text)
    return [(s.get_type(), s.raw) for s in segs if s.raw != ""]


def compare_tokens(in_lex, in_types, out_lex, policies):
    """The property, token-wise.  -> (problems, changed) ; problems: list of (key, attrs, detail)"""
    problems, changed = [], []
    if len(in_lex) != len(out_lex):
        return [("token-count-changed", {}, {"in": len(in_lex), "out": len(out_lex)})], changed
    for i, ((k1, r1), (k2, r2)) in enumerate(zip(in_lex, out_lex)):
        # a word with a letter the dialect's lexer does not know is lexed as `<unlexable>` but still parsed as an identifier
        # (the parser matches on the upper-cased raw); changing its case may make it lexable: same class as `word`
        k1, k2 = UNLEX.get(k1, k1), UNLEX.get(k2, k2)
        if k1 != k2:
            problems.append(("token-kind-changed", {"from": k1, "to": k2}, {"index": i, "in": r1, "out": r2}))
        if r1 == r2:
            continue
        ptype, types = in_types[i] if in_types is not None else (None, None)
        changed.append((i, k1, ptype, r1, r2))
        classify_change(i, k1, ptype, types, r1, r2, policies, problems)
    return problems, changed


def check_output(in_lex, in_types, cfg, out, policies):
    """token-wise comparison; when the output lexes into a different token sequence, decide by walk_compare"""
    problems, changed = compare_tokens(in_lex, in_types, lex(cfg, out), policies)
    relex = False
    if any(p[0] in ("token-count-changed", "token-kind-changed") or p[1].get("change") == "other" for p in problems):
        p2, c2 = walk_compare(in_lex, in_types, out, policies)
        if not p2:
            problems, changed, relex = p2, c2, True
    return problems, changed, relex


def classify_change(i, k1, ptype, types, r1, r2, policies, problems):
    """one changed token: may it change at all, and is the change case-only"""
    if k1 != "word":
        problems.append(("frozen-token-changed", {"kind": k1, "parsed": ptype}, {"index": i, "in": r1, "out": r2}))
    elif types is not None and not (types & ALLOWED):
        problems.append(("other-kind-changed", {"types": ",".join(sorted(types - {"base", "raw", "word"}))}, {"index": i, "in": r1, "out": r2}))
    if not same_up_to_case(r1, r2):
        if "snake" in policies and drop_us(r1).casefold() == drop_us(r2).casefold() and len(r2) > len(r1):
            problems.append(("caps-not-case-only", {"policy": "snake", "change": "underscores-inserted"}, {"index": i, "in": r1, "out": r2}))
        else:
            pol = "snake" if "snake" in policies else (policies[0] if len(set(policies)) == 1 else "mixed")
            problems.append(("caps-not-case-only", {"policy": pol, "change": "other"}, {"index": i, "in": r1, "out": r2}))


def walk_compare(in_lex, in_types, out, policies):
    """The property without re-lexing the output: the output must be the concatenation, in order, of the input tokens, each
    either verbatim or (for an unquoted word of an allowed kind) a case variant of it.  Used when a Unicode case mapping changed
    the length of a word (e.g. dotted capital I -> i + combining dot) so that the output lexes into different tokens."""
    problems, changed = [], []
    pos = 0
    for i, (k1, r1) in enumerate(in_lex):
        k1 = UNLEX.get(k1, k1)
        if out.startswith(r1, pos):
            pos += len(r1)
            continue
        ptype, types = in_types[i] if in_types is not None else (None, None)
        cand = None
        for ln in sorted(range(max(1, len(r1) - 3), len(r1) + 4), key=lambda x: abs(x - len(r1))):
            seg = out[pos:pos + ln]
            if len(seg) == ln and same_up_to_case(r1, seg):
                cand = seg
                break
        if cand is None and "snake" in policies:
            for ln in range(len(r1) + 1, 2 * len(r1) + 4):
                seg = out[pos:pos + ln]
                if len(seg) == ln and drop_us(seg).casefold() == drop_us(r1).casefold():
                    cand = seg
                    break
        if cand is None:
            problems.append(("caps-not-case-only", {"policy": policies[0] if len(set(policies)) == 1 else "mixed", "change": "unaligned"},
                             {"index": i, "in": r1, "out": out[pos:pos + len(r1) + 8]}))
            return problems, changed
        changed.append((i, k1, ptype, r1, cand))
        classify_change(i, k1, ptype, types, r1, cand, policies, problems)
        pos += len(cand)
    if pos != len(out):
        problems.append(("token-count-changed", {}, {"trailing_output": out[pos:pos + 40]}))
    return problems, changed


def monitor_task(task):
    """Runs in a worker process.  task: dict(dialect, label, sql, combos=[(rules_pol, feu, crosscheck)])"""
    from sqlfluff.core import Linter
    res = {"cases": [], "problems": [], "fixes": [], "rule_exceptions": [], "harness": [], "nonascii_len": [], "relex": []}
    dialect, sql = task["dialect"], task["sql"]
    try:
        base = make_cfg(dialect, {"CP01": "consistent"})
        if task.get("mutate_seed") is not None:
            sql = mutate(base, sql, random.Random(task["mutate_seed"]))
        parsed = Linter(config=base).parse_string(sql)
        root = parsed.root_variant()
        if root is None or root.tree is None:
            res["cases"].append((task["label"], "-", "no-tree", False))
            return res
        tree = root.tree
        in_lex = lex(base, sql)
        tsegs = [s for s in tree.raw_segments if s.raw != ""]
        in_types = None
        if [r for _, r in in_lex] == [s.raw for s in tsegs]:
            in_types = [(s.get_type(), set(s.class_types) | set(getattr(s, "instance_types", ()) or ())) for s in tsegs]
        else:
            res["harness"].append(("tree/lexer token alignment failed", task["label"]))
        unparsable = "unparsable" in tree.type_set()
        confirmed = set()
        for rules_pol, feu, cross in task["combos"]:
            cfg = make_cfg(dialect, rules_pol, feu=feu)
            lin = Linter(config=cfg)
            rp = lin.get_rulepack(config=cfg)
            lf = lin.lint_parsed(parsed._replace(config=cfg), rp, fix=True)
            out = lf.fix_string()[0]
            policies = [rules_pol[r] for r in sorted(rules_pol)]
            tag = "+".join("%s=%s" % (r, rules_pol[r]) for r in sorted(rules_pol)) + ("+feu" if feu else "")
            for v in lf.violations:
                d = v.desc() if hasattr(v, "desc") else ""
                if "Unexpected exception" in d:
                    res["rule_exceptions"].append((task["label"], tag, v.rule_code(), d.split("\n")[0][:120], v.line_no, v.line_pos))
            problems, changed, relex = [], [], False
            if out != sql:
                problems, changed, relex = check_output(in_lex, in_types, cfg, out, policies)
            # confirm through the real entry point (fresh parse): a sample of all runs, and every new kind of problem once per file
            sig = frozenset((key, repr(sorted(attrs.items()))) for key, attrs, _ in problems)
            if cross or not sig <= confirmed:
                confirmed |= sig
                out2 = Linter(config=cfg).lint_string(sql, fix=True).fix_string()[0]
                if out2 != out:
                    res["harness"].append(("lint_parsed on a shared parse differs from lint_string", task["label"], tag))
                    out = out2
                    problems, changed, relex = ([], [], False) if out == sql else check_output(in_lex, in_types, cfg, out, policies)
            if relex:
                res["relex"].append((task["label"], tag))
            kind = "changed" if out != sql else ("unparsable-unchanged" if unparsable else "unchanged")
            res["cases"].append((task["label"], tag, kind, unparsable))
            for key, attrs, detail in problems:
                if key in ("frozen-token-changed", "other-kind-changed"):
                    attrs = dict(attrs, rule=sorted(rules_pol)[0] if len(rules_pol) == 1 else "multi")
                res["problems"].append((key, attrs, {"input": {"dialect": dialect, "file": task["label"], "rules": rules_pol,
                                                               "fix_even_unparsable": feu, "sql": sql},
                                                     "token": detail, "output_excerpt": out[:400]}))
            if len(rules_pol) == 1:
                pol = policies[0]
                for (_i, _k, _t, r1, r2) in changed:
                    if r1.isascii() and r2.isascii():
                        res["fixes"].append((pol, r1, r2))
                    elif len(r1) != len(r2) and same_up_to_case(r1, r2):
                        res["nonascii_len"].append((pol, r1, r2))
    except Exception as e:  # a crash of the linter itself is C04's business; report as harness note with the input
        res["harness"].append(("exception in monitor task", task["label"], "".join(traceback.format_exception(type(e), e, e.__traceback__))[-1500:]))
    return res


def monitor_batch(tasks):
    import time
    t0, c0 = time.time(), time.process_time()
    out = [monitor_task(t) for t in tasks]
    if out:
        out[0]["timing"] = (tasks[0]["dialect"], round(time.time() - t0, 1), round(time.process_time() - c0, 1))
    return out


NONASCII = ["é", "ß", "İ", "ǆ", "Σ", "ﬁ", "ı"]


def mutate(cfg, sql, rng):
    """token-level mutation of a fixture: case changes of words (also inside quotes/comments), non-ASCII letters, injected comments,
    token delete / duplicate / swap"""
    toks = lex(cfg, sql)
    if not toks:
        return sql
    toks = [list(t) for t in toks]
    mode = rng.choice(["case", "case", "case", "nonascii", "comment", "tokens"])

    def recase(w):
        s = rng.randrange(6)
        if s == 0:
            return w.upper()
        if s == 1:
            return w.lower()
        if s == 2:
            return w.capitalize()
        if s == 3:
            return "".join(c.upper() if rng.random() < 0.5 else c.lower() for c in w)
        if s == 4 and len(w) > 2:
            k = rng.randrange(1, len(w))
            return w[:k].lower() + w[k:].capitalize()
        return w.swapcase()

    for t in toks:
        if t[0] == "word" and rng.random() < 0.45:
            t[1] = recase(t[1])
        elif ("quote" in t[0] or "comment" in t[0]) and rng.random() < 0.3 and len(t[1]) > 2:
            t[1] = t[1][0] + recase(t[1][1:-1]) + t[1][-1] if "quote" in t[0] else t[1][:2] + recase(t[1][2:])
    if mode == "nonascii":
        ws = [t for t in toks if t[0] == "word" and t[1].isascii() and len(t[1]) > 1]
        for t in rng.sample(ws, min(len(ws), 3)):
            k = rng.randrange(len(t[1]))
            t[1] = t[1][:k] + rng.choice(NONASCII) + t[1][k + 1:]
    elif mode == "comment":
        for _ in range(2):
            k = rng.randrange(len(toks) + 1)
            toks.insert(k, ["x", rng.choice([" /* Select fooBar FROM nUll */ ", " -- Select fooBar, INT null\n", " \"fooBar Baz\" ", " 'Null fooBar' "])])
    elif mode == "tokens":
        for _ in range(rng.randrange(1, 3)):
            k = rng.randrange(len(toks))
            op = rng.randrange(3)
            if op == 0:
                del toks[k]
            elif op == 1:
                toks.insert(k, list(toks[k]))
            elif k + 1 < len(toks):
                toks[k], toks[k + 1] = toks[k + 1], toks[k]
            if not toks:
                break
    return "".join(t[1] for t in toks)


EXTRA_SQL = [
    ("ansi", "SELECT fooBar, col1, a_b, ABC, Abc1d, \"quotedCol1\", 'strVal1' FROM myTable1 -- fooBar col1\n"),
    ("ansi", "select a, Sum(b) as total1, cast(c as VarChar(10)), NULL, True, false from t1 Where x1 Is Not Null And y like 'aB1%'\n"),
    ("tsql", "SELECT [fooBar1], fooBar1, @myVar1, N'strVal' FROM [dbo].[myTable1] AS t1 WHERE GetDate() > dateAdd(day, 1, col1) AND [myFunc1](col1) = 1\n"),
    ("bigquery", "SELECT `fooBar1`, fooBar1, Safe_Cast(x1 AS int64), r'raw1Str', DATE_ADD(d1, INTERVAL 1 day), `my-proj.myDs1.myFunc1`(x1) FROM `proj.dataSet1.tbl1`\n"),
    ("postgres", "SELECT fooBar1::Int4, E'esc1', $$body1 fooBar$$, \"Qu1\" FROM myTable1 WHERE a1 IS nUll\n"),
    ("snowflake", "select $1, fooBar1:fieldName1::varChar, 'x1' from @myStage1 (file_format => myFmt1)\n"),
    ("mysql", "SELECT `fooBar1`, fooBar1, @userVar1, 'aB1' FROM myTable1 WHERE col1 <=> NULL\n"),
    ("ansi", "CREATE TABLE tblA1 (a INT, b DECIMAL /* Money: see Docs */ (10, 2), c DOUBLE -- Legacy Col\n PRECISION)\n"),
    ("snowflake", "create file format ff1 type = 'csv' compression = 'gzip';\ncreate warehouse wh1 with warehouse_size = 'xsmall' scaling_policy = 'economy';\n"),
    ("materialize", "ALTER SINK IF EXISTS sinkName1 SET ( SIZE 'xsmall' );\nselect colA1 from tblB2;\n"),
    ("sparksql", "SELECT fooBar1, `quoted1Col`, named_struct('a1', colB2) FROM myTable1 TBLPROPERTIES\n"),
]


def build_tasks(ctx):
    rng = ctx.rng
    thorough = ctx.tier == "thorough"
    per_dialect = 5 if thorough else 1
    max_size = 5000 if thorough else 1000
    n_mut = 2 if thorough else 1
    mut_combos = 10 if thorough else 4
    single = [({r: p}, False) for r in sorted(NAMES) for p in policies_of(r)]

    def all_mix(with_snake):
        pols = {}
        for r in sorted(NAMES):
            cand = [p for p in policies_of(r) if with_snake or p != "snake"]
            pols[r] = rng.choice(cand)
        if with_snake:
            pols[rng.choice(["CP02", "CP03", "CP05"])] = "snake"
        return pols

    def combos_full():
        out = [(dict(rp), feu, rng.random() < 0.04) for rp, feu in single]
        for p in (BASIC if thorough else ["consistent"]):
            out.append(({r: p for r in NAMES}, False, rng.random() < 0.04))
        out.append((all_mix(False), False, False))
        if thorough:
            out.append((all_mix(True), False, False))
        return out

    def combos_some(k, feu_p=0.5):
        out = [(dict(rp), rng.random() < feu_p, rng.random() < 0.04) for rp, _ in rng.sample(single, k)]
        out.append((all_mix(False), rng.random() < feu_p, False))
        out.append(({r: "consistent" for r in NAMES}, rng.random() < feu_p, False))
        return out

    tasks = []
    dialects = sorted(d for d in os.listdir(FIXTURES) if os.path.isdir(os.path.join(FIXTURES, d)))
    for d in dialects:
        files = sorted(glob.glob(os.path.join(FIXTURES, d, "*.sql")))
        files = [f for f in files if 40 <= os.path.getsize(f) <= max_size]
        if not files:
            continue
        for f in rng.sample(files, min(per_dialect, len(files))):
            try:
                sql = open(f, encoding="utf-8").read()
            except UnicodeDecodeError:
                continue
            label = os.path.relpath(f, FIXTURES)
            # quick: the full rule x policy grid runs on the EXTRA_SQL statements; each fixture gets a random third of it
            tasks.append({"dialect": d, "label": label, "sql": sql, "combos": combos_full() if thorough else combos_some(12, 0.0)})
            for k in range(n_mut):
                mseed = rng.randrange(1 << 30)
                tasks.append({"dialect": d, "label": "%s#mut%d" % (label, mseed), "sql": sql, "mutate_seed": mseed,
                              "combos": combos_some(mut_combos)})
    for i, (d, sql) in enumerate(EXTRA_SQL):
        tasks.append({"dialect": d, "label": "extra%d" % i, "sql": sql, "combos": combos_full()})
        if thorough:
            for k in range(3):
                mseed = rng.randrange(1 << 30)
                tasks.append({"dialect": d, "label": "extra%d#mut%d" % (i, mseed), "sql": sql, "mutate_seed": mseed,
                              "combos": combos_some(mut_combos)})
    return tasks


def monitor(ctx, coq_ok):
    import multiprocessing
    from concurrent.futures import ProcessPoolExecutor
    tasks = build_tasks(ctx)
    # one batch per dialect (loading a dialect costs about as much as a dozen lints, so each is loaded in one worker only);
    # heavy batches first so the pool drains evenly
    by_dialect = {}
    for i, t in enumerate(tasks):
        by_dialect.setdefault(t["dialect"], []).append(i)
    batches = sorted(by_dialect.values(), key=lambda idx: -sum((200 + len(tasks[i]["sql"])) * len(tasks[i]["combos"]) for i in idx))
    results = [None] * len(tasks)
    with ProcessPoolExecutor(max_workers=3, mp_context=multiprocessing.get_context("spawn")) as ex:
        for idx, rs in zip(batches, ex.map(monitor_batch, [[tasks[i] for i in idx] for idx in batches], chunksize=1)):
            for i, r in zip(idx, rs):
                results[i] = r
    fixes = {}
    nexc, exc_samples, nonascii = 0, [], []
    sampled = 0
    for task, r in zip(tasks, results):
        for (label, tag, kind, unparsable) in r["cases"]:
            nt = (task["dialect"], label, tag) if kind == "changed" else None
            smp = None
            if kind == "changed" and sampled < 2 and "#mut" in label:
                smp = {"dialect": task["dialect"], "file": label, "rules": tag}
                sampled += 1
            ctx.case(nt, sample=smp, bucket="fix-" + kind)
            ctx.count("dialect-" + task["dialect"])
            ctx.count("rules-" + ("ALL" if tag.count("=") > 1 else tag.split("+")[0]))
        for key, attrs, replay in r["problems"]:
            what = {
                "token-count-changed": "a capitalisation fix changed the number of tokens",
                "token-kind-changed": "a capitalisation fix changed the lexical kind of a token",
                "frozen-token-changed": "a capitalisation fix changed a token that is not an unquoted word (quoted identifier, string, comment, whitespace, symbol or number)",
                "other-kind-changed": "a capitalisation fix changed a word that is not a keyword, identifier, function name, type name or boolean/null literal",
                "caps-not-case-only": "a capitalisation fix changed more than letter case (policy %s: %s)" % (attrs.get("policy"), attrs.get("change")),
            }[key]
            ctx.violation(key, what, replay, attrs=attrs)
        for f in r["fixes"]:
            fixes[f] = fixes.get(f, 0) + 1
        nexc += len(r["rule_exceptions"])
        exc_samples += r["rule_exceptions"][:2]
        nonascii += r["nonascii_len"]
        ctx.count("output-lexes-differently-but-case-only", len(r["relex"]))
        for h in r["harness"]:
            if h[0].startswith("tree/lexer"):
                ctx.count("harness-alignment-fallback")
            else:
                ctx.broken_obligation("monitor: " + h[0], {"detail": h[1:]})
    ctx.coverage_extra["monitor_tasks"] = len(tasks)
    ctx.coverage_extra["monitor_batches(dialect,wall_s,cpu_s)"] = [r["timing"] for r in results if r and "timing" in r]
    ctx.coverage_extra["rule_exceptions_seen(C05)"] = {"count": nexc, "samples": exc_samples[:4]}
    ctx.coverage_extra["nonascii_case_mappings_changing_length"] = sorted(set(nonascii))[:10]
    # translation validation of the real fixes against the model: every changed ASCII token is what the model's transform gives
    if coq_ok and fixes:
        trip = sorted(fixes)
        limit = 3000 if ctx.tier == "thorough" else 600
        if len(trip) > limit:
            trip = ctx.rng.sample(trip, limit)
        lits = ["(%d%%N, %s, %s)" % (0 if p == "consistent" else PCODE[p], coq.ctext(a), coq.ctext(b)) for (p, a, b) in trip]
        parts = coq.eval_terms(["Model.Caps"], ["map fix_explained %s" % coq.clist(g) for g in coq.chunked(lits, 100)], defs=DEFS)
        got = [x for part in parts for x in part]
        for (p, a, b), g in zip(trip, got):
            ctx.case(None, bucket="real-fix-vs-model")
            if g is not True:
                ctx.broken_obligation("correspondence: a fix made by the real linter is not the model's transform of the token",
                                      {"policy": p, "raw": a, "fixed": b})
                break
        ctx.coverage_extra["real_fixes_checked_against_model"] = len(trip)


def replay(ctx, data):
    """./check C15 --replay file : re-run the recorded input through the real linter and the token-wise oracle"""
    inp = data["replay"]["input"]
    r = monitor_task({"dialect": inp["dialect"], "label": inp["file"], "sql": inp["sql"],
                      "combos": [(inp["rules"], inp.get("fix_even_unparsable", False), True)]})
    for key, attrs, rep in r["problems"]:
        print("VIOLATION property=C15 key=%s attrs=%s token=%s" % (key, attrs, rep["token"]))
    for h in r["harness"]:
        print("harness note:", h)
    print("replay: %d problem(s)" % len(r["problems"]))
    return 1 if r["problems"] else 0


def run(ctx, coq_ok):
    import time
    t0 = time.time()
    check_structure(ctx)
    correspondence(ctx, coq_ok)
    t1 = time.time()
    monitor(ctx, coq_ok)
    ctx.coverage_extra["phase_seconds"] = {"before_run": round(t0 - ctx.t0, 1), "correspondence": round(t1 - t0, 1), "monitor": round(time.time() - t1, 1)}
