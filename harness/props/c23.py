"""C23 — reported violation positions are accurate."""
import json
import os
import shutil
import tempfile

from harness import corpus

LEVEL = "proof"
COQ_TARGETS = ["theories/Properties/C23.vo"]
PROPERTY_FILES = ["theories/Properties/C23.v"]
RULE = ("(1) API level: every violation of real lint runs (all rules; fixtures of every dialect, mutations incl. unparsable and unlexable text, generated Jinja "
        "templates, python/placeholder sources): line/column within the source file; for violations anchored on a segment, line/column = conversion of "
        "the anchor's source start offset, and for anchors in literal source the source text at the anchor's slice is the anchor's text (first "
        "character identified); (2) CLI level: the same files linted through `sqlfluff lint --format json|yaml|github-annotation-native|sarif` "
        "(none format too): offsets agree with line/column (start and end), all formats report the same (code, line, column) set. "
        "non-trivial = file with >= 1 violation off line 1 or templated; distinct by source")
ASSUMPTIONS = ["PARTIAL: which anchor a rule reports is not modelled", "json/yaml serialisers trusted"]
TRUSTED_BASE = ["Model/LineCol.v (C31 correspondence)", "the line/column oracle in this module"]


def linecol(src, p):
    before = src[:p]
    return 1 + before.count("\n"), 1 + len(before) - (before.rfind("\n") + 1)


def pos_case(dialect, templater, style, label, source):
    from harness.fixcheck import linter
    out = {"exc": None, "probs": [], "n": 0, "offline": 0}
    try:
        lnt = linter(dialect, templater, style, None)
        lf = lnt.lint_string(source, fname="t.sql")
        src = lf.templated_file.source_str if lf.templated_file is not None else lnt._normalise_newlines(source)
        nlines = 1 + src.count("\n")
        lines = src.split("\n")
        for v in lf.get_violations(filter_ignore=False, filter_warning=False):
            out["n"] += 1
            ln, lp = v.line_no, v.line_pos
            if ln > 1:
                out["offline"] += 1
            code = v.rule_code()
            if not (1 <= ln <= nlines) or not (1 <= lp <= len(lines[ln - 1]) + 1 if 1 <= ln <= nlines else False):
                out["probs"].append(("outside-file", "%s reported at line %d col %d, file has %d lines%s" % (
                    code, ln, lp, nlines, (" (line length %d)" % len(lines[ln - 1])) if 1 <= ln <= nlines else ""), code, (ln, lp)))
                continue
            seg = getattr(v, "segment", None)
            if seg is not None and seg.pos_marker is not None:
                ss = seg.pos_marker.source_slice
                if linecol(src, ss.start) != (ln, lp):
                    out["probs"].append(("not-anchor-start", "%s at (%d,%d) but its anchor %r starts at source offset %d = %r" % (
                        code, ln, lp, seg.raw[:15], ss.start, linecol(src, ss.start)), code, (ln, lp)))
                elif seg.pos_marker.is_literal() and seg.raw and src[ss.start:ss.stop] != seg.raw and not seg.is_meta:
                    out["probs"].append(("anchor-text", "%s anchor %r is literal but the source there is %r" % (code, seg.raw[:15], src[ss.start:ss.stop][:15]), code, (ln, lp)))
            d = v.to_dict()
            if "start_file_pos" in d:
                for pre in ("start", "end"):
                    if pre + "_file_pos" in d and linecol(src, d[pre + "_file_pos"]) != (d[pre + "_line_no"], d[pre + "_line_pos"]):
                        out["probs"].append(("offset-vs-linecol", "%s %s offset %d is (%r) but record says (%d,%d)" % (
                            code, pre, d[pre + "_file_pos"], linecol(src, d[pre + "_file_pos"]), d[pre + "_line_no"], d[pre + "_line_pos"]), code, (ln, lp)))
    except BaseException as e:  # noqa
        from harness.crashcheck import _exc_info
        out["exc"] = _exc_info(e)
    return out


def cli_formats(ctx, files):
    import yaml
    from click.testing import CliRunner
    from sqlfluff.cli.commands import lint
    d = tempfile.mkdtemp(prefix="verif-c23-", dir=os.environ.get("TMPDIR") or "/var/tmp")
    try:
        for i, (dialect, sql) in enumerate(files):
            p = os.path.join(d, "f%d.sql" % i)
            with open(p, "w", encoding="utf-8", newline="") as f:
                f.write(sql)
            src = sql.replace("\r\n", "\n").replace("\r", "\n")
            got = {}
            for fmt in ("json", "yaml", "github-annotation-native", "sarif"):
                r = CliRunner().invoke(lint, [p, "--dialect", dialect, "--format", fmt, "--disable-progress-bar", "--templater", "raw"])
                try:
                    if fmt == "json":
                        recs = json.loads(r.output)
                        vs = [v for rec in recs for v in rec["violations"]]
                        got[fmt] = sorted((v["code"], v["start_line_no"], v["start_line_pos"]) for v in vs)
                        for v in vs:
                            for pre in ("start", "end"):
                                if pre + "_file_pos" in v and linecol(src, v[pre + "_file_pos"]) != (v[pre + "_line_no"], v[pre + "_line_pos"]):
                                    ctx.violation("cli-offset-vs-linecol", "json output: %s %s offset %d does not match line/col (%d,%d)" % (
                                        v["code"], pre, v[pre + "_file_pos"], v[pre + "_line_no"], v[pre + "_line_pos"]), {"input": {"dialect": dialect, "sql": sql}, "violation": v}, attrs={"format": fmt})
                    elif fmt == "yaml":
                        recs = yaml.safe_load(r.output)
                        got[fmt] = sorted((v["code"], v["start_line_no"], v["start_line_pos"]) for rec in recs for v in rec["violations"])
                    elif fmt == "sarif":
                        doc = json.loads(r.output)
                        got[fmt] = sorted((res["ruleId"], res["locations"][0]["physicalLocation"]["region"]["startLine"], res["locations"][0]["physicalLocation"]["region"]["startColumn"])
                                          for run in doc["runs"] for res in run["results"])
                    else:
                        triples = []
                        for line in r.output.splitlines():
                            if line.startswith(("::warning ", "::error ", "::notice ")):
                                meta = line.split("::")[1]
                                kv = dict(x.split("=", 1) for x in meta.split(" ", 1)[1].split(",") if "=" in x)
                                code = line.split("::", 2)[2].split(":", 1)[0].strip()
                                triples.append((code, int(kv["line"]), int(kv["col"])))
                        got[fmt] = sorted(triples)
                except Exception as e:  # noqa
                    ctx.broken_obligation("cannot parse `sqlfluff lint --format %s` output" % fmt, "%r\n%s" % (e, r.output[:500]))
                    got[fmt] = None
            ctx.case(("cli", dialect, sql), bucket="cli-formats")
            base = got.get("json")
            for fmt, val in got.items():
                if val is not None and base is not None and [x for x in val] != [x for x in base]:
                    a = set(map(tuple, val)) ^ set(map(tuple, base))
                    ctx.violation("cli-formats-disagree", "%s output reports different (code,line,col) than json: %r" % (fmt, sorted(a)[:3]),
                                  {"input": {"dialect": dialect, "sql": sql}, "json": base, fmt: val}, attrs={"format": fmt})
    finally:
        shutil.rmtree(d, ignore_errors=True)


def run(ctx, coq_ok):
    rng = ctx.rng
    jobs = []
    per = 2 if ctx.tier == "quick" else 12
    for d, label, sql in corpus.corpus(rng, per, 2, max_chars=800 if ctx.tier == "quick" else 3000):
        jobs.append((d, "raw", None, label, sql))
    for i in range(40 if ctx.tier == "quick" else 400):
        jobs.append(("ansi", "jinja", i % 2, "jinja-gen", corpus.gen_jinja(rng).replace("SELECT\n    ", "select  ", 1)))
    for s in ["SELECT {{ 1 + }}\n", "\n\nSELECT {% if %}1\n", "SELECT a FROM t WHERE (b > 1\n", "\n\n\nSELECT \x00 'x\n", "SELECT {{ undefined_thing }} FROM t\n",
              "select a,b\nfrom t\nwhere a=1 and\n\n\n  b = 2 \n"]:
        jobs.append(("ansi", "jinja", 0, "hostile", s))
    for i in range(10 if ctx.tier == "quick" else 100):
        jobs.append(("ansi", "python", None, "pyformat-gen", corpus.gen_pyformat(rng)))
    for style in corpus.PLACEHOLDER_STYLES:
        jobs.append(("ansi", "placeholder", style, "placeholder-" + style, corpus.gen_placeholder(rng, style).replace("SELECT a,", "select\n a ,", 1)))
    tot = 0
    for (d, tpl, style, label, src), st, res in corpus.pmap("harness.props.c23", "pos_case", jobs):
        if st != "ok":
            ctx.broken_obligation("harness worker crashed on %s" % label, res)
            continue
        tot += res["n"]
        nontriv = res["offline"] > 0 or tpl != "raw"
        ctx.case((d, tpl, src) if nontriv else None, bucket="%s:%s" % (tpl, "exc" if res["exc"] else "violations" if res["n"] else "none"),
                 sample={"dialect": d, "templater": tpl, "source": src[:80], "violations": res["n"]} if nontriv and res["n"] and len(ctx.samples) < 4 else None)
        inp = {"dialect": d, "templater": tpl, "style": style, "label": label, "source": src}
        for key, what, code, lc in res["probs"]:
            ctx.violation("position-" + key, "%s [%s, %s]" % (what, d, tpl), {"input": inp}, attrs={"kind": key, "code": code if code in ("TMP", "PRS", "LXR") else "lint", "line0": lc[0] == 0})
    files = [("ansi", "select a,b\nfrom t\nwhere a=1 and\n  b = 2 \n"), ("ansi", "SELECT a\r\nFROM t\r\nWHERE b  = 1\r\n"), ("tsql", "select [a] , b from t\n\n\nwhere (a = 1\n"),
             ("ansi", "SELECT 'é' , a  FROM t -- \U0001F600\n  where a in ( 1,2 )\n"), ("bigquery", "select\n  a,\n  b,\nfrom t\n")]
    for d, label, sql in corpus.corpus(rng, 1, 0, max_chars=600, only=["ansi", "snowflake"] if ctx.tier == "quick" else None):
        files.append((d, sql))
    cli_formats(ctx, files)
    ctx.coverage_extra["violations_checked"] = tot
