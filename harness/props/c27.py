"""C27 — configuration precedence and isolation.

Correspondence: Model/Config.v against the real helpers (nested_combine, records_to_nested_dict, iter_records_from_nested_dict,
split_colon_separated_string, str.strip/splitlines tables, load_ini_string, load_toml_file_config, iter_intermediate_paths,
FluffConfig.set_value / process_raw_file_for_config) and against whole generated hierarchies (FluffConfig.from_path +
process_raw_file_for_config, Linter.load_raw_file_and_config, Linter.lint_paths over sequences of files in several orders with
warm caches).  Monitor: the property in its own words (precedence ladder oracle, file-alone == file-in-a-sequence, LT05 line set
predicted from the effective max_line_length, lint_string inline directives, CLI).
"""
import ast
import configparser
import copy
import io
import itertools
import json
import os
import shutil
import tempfile

from harness import coq

LEVEL = "proof"
COQ_TARGETS = ["theories/Properties/C27.vo"]
PROPERTY_FILES = ["theories/Properties/C27.v"]
RULE = ("(1) exhaustive small scopes: nested_combine on all pairs (and sampled triples/quadruples) of 64 two-key dicts of depth<=2, set_value / "
        "records_to_nested_dict on all paths of length<=3 over them, split_colon_separated_string on all strings of length<=4/5 over a 7-letter "
        "alphabet, str.isspace / splitlines tables over U+0000..U+3100; (2) seeded config hierarchies in a temp dir (setup.cfg, tox.ini, pep8.ini, "
        ".sqlfluff, pyproject.toml in user appdir / XDG dir / home / dirs above the working dir / working dir / nested dirs / sibling dirs / dirs "
        "outside the working dir, extra config file, ignore_local_config, CLI overrides, inline directives incl. malformed ones, value-vs-section "
        "conflicts) x every sql file: FluffConfig.from_path+process_raw_file_for_config and Linter.load_raw_file_and_config vs the model, then "
        "Linter.lint_paths over the files in 3-4 orders in one process with warm caches (config captured at load and at lint time) vs the model; "
        "(3) precedence ladder: every subset of 10 layers setting one key, winner predicted by an independent oracle; file alone vs file in a sequence; "
        "LT05 lines predicted from the effective max_line_length; lint_string/parse_string inline directives; CLI. "
        "non-trivial = a file whose effective config differs from the defaults in a key set by >= 2 layers, or an error outcome; "
        "distinct = distinct (hierarchy, file)")
ASSUMPTIONS = [
    "validate_config_dict is the identity on the generated key vocabulary (no removed/layout/max_parse_* keys)",
    "_resolve_paths_in_config is the identity (no *_path / *_dir keys); no symlinks in the hierarchy",
    "configparser / tomllib are the parsers (their view of a file is the model's input: sections+items, resp. the tool.sqlfluff table)",
    "derived keys written into core after combination (color, rule_allowlist, rule_denylist, dialect_obj, templater_obj, split ignore/warnings) are "
    "outside the model; the monitor checks them against the effective raw values",
    "values are compared through ini.coerce_value (model values are raw texts); TypeError/AttributeError/OSError/SQLFluffUserError all map to ERuntime",
    "POSIX paths (a common path always exists)",
]
TRUSTED_BASE = ["hand model Model/Config.v of dict.py / loader.py / file.py / ini.py / toml.py / fluffconfig.py (config part)",
                "scenario materialiser and value encoding in harness/props/c27.py; HOME / XDG_CONFIG_HOME / cwd redirection"]

DERIVED = ("color", "rule_allowlist", "rule_denylist", "dialect_obj", "templater_obj")
SPLIT_KEYS = ("ignore", "warnings")
TAG = "\x00s:"


# ------------------------------------------------------------------------------------------------------------------------
# value encoding: model values are raw texts t; the python value they stand for is dec(t)

def dec(t):
    from sqlfluff.core.config.ini import coerce_value
    if t.startswith(TAG):
        return t[len(TAG):]
    return coerce_value(t)


def same_val(a, b):
    if type(a) is not type(b):
        return False
    if isinstance(a, float) and a != a and b != b:
        return True
    return a == b


def enc(v):
    """a text whose dec() is v (same type)"""
    if v is None:
        t = "None"
    elif v is True:
        t = "True"
    elif v is False:
        t = "False"
    elif isinstance(v, (int, float)):
        t = repr(v)
    elif isinstance(v, str):
        t = v
    else:
        raise ValueError("cannot encode config value %r" % (v,))
    if not same_val(dec(t), v):
        if isinstance(v, str):
            t = TAG + v
        if not same_val(dec(t), v):
            raise ValueError("config value %r does not round-trip" % (v,))
    return t


def enc_tree(d):
    return {k: (enc_tree(v) if isinstance(v, dict) else enc(v)) for k, v in d.items()}


# ------------------------------------------------------------------------------------------------------------------------
# Coq literals

def _plain(s):
    return all(32 <= ord(c) < 127 and c != '"' for c in s)


def ctext(s):
    if s == "":
        return "(@nil N)"
    if _plain(s):
        return '(lit "%s")' % s
    return "[" + ";".join(str(ord(c)) for c in s) + "]%N"


def cpath(p):
    return "(@nil text)" if not p else "[" + "; ".join(ctext(x) for x in p) + "]"


def ccfg(v):
    if isinstance(v, dict):
        return "(Dict %s)" % cdict(v)
    return "(Leaf %s)" % ctext(v)


def cdict(d):
    if not d:
        return "(@nil (key * cfg text))"
    return "[" + "; ".join("(%s, %s)" % (ctext(k), ccfg(v)) for k, v in d.items()) + "]"


def cini(sections):
    if not sections:
        return "(@nil (text * list (text * text)))"
    out = []
    for name, items in sections:
        its = "(@nil (text * text))" if not items else "[" + "; ".join("(%s, %s)" % (ctext(k), ctext(v)) for k, v in items) + "]"
        out.append("(%s, %s)" % (ctext(name), its))
    return "[" + "; ".join(out) + "]"


def copt(x, f):
    return "None" if x is None else "(Some %s)" % f(x)


COQ_DEFS = r'''
From Coq Require Import String Ascii.
Definition idc (t : text) : text := t.
Definition is_plain (c : N) : bool := ((32 <=? c) && (c <? 127) && negb (c =? 34))%N.
Inductive ot := OS (s : string) | OT (t : text).
Definition enc_text (t : text) : ot := if forallb is_plain t then OS (string_of_list_ascii (map ascii_of_N t)) else OT t.
Inductive ocfg := OL (v : ot) | OD (l : list (ot * ocfg)).
Fixpoint enc_cfg (c : cfg text) : ocfg :=
  match c with
  | Leaf v => OL (enc_text v)
  | Dict l => OD ((fix go (l : list (key * cfg text)) := match l with [] => [] | (k, x) :: r => (enc_text k, enc_cfg x) :: go r end) l)
  end.
Definition enc_res (r : res (dict text)) : res ocfg := match r with Ok d => Ok (enc_cfg (Dict d)) | Err e => Err e end.
Definition enc_recs (l : list (list key * text)) := map (fun kv => (map enc_text (fst kv), enc_text (snd kv))) l.
'''


def dec_ot(o):
    if o[0] == "OS":
        return o[1] if len(o) > 1 else ""
    if o[0] == "OT":
        return "".join(chr(c) for c in (o[1] if len(o) > 1 else []))
    raise ValueError("bad ot %r" % (o,))


def dec_ocfg(o):
    if o[0] == "OL":
        return dec_ot(o[1])
    assert o[0] == "OD", o
    items = o[1] if len(o) > 1 else []
    return {dec_ot(k): dec_ocfg(v) for (k, v) in items}


def dec_res(r):
    """-> ("ok", nested dict of texts) | ("err", kind)"""
    if r[0] == "Ok":
        return ("ok", dec_ocfg(r[1]))
    return ("err", r[1][0])


# ------------------------------------------------------------------------------------------------------------------------
# implementation side helpers

def exc_kind(e):
    n = type(e).__name__
    return {"ValueError": "EValue", "AssertionError": "EAssert", "IndexError": "EIndex", "KeyError": "EKey"}.get(n, "ERuntime")


def split_csv(v):
    from sqlfluff.core.helpers.string import split_comma_separated_string
    return split_comma_separated_string(v) if v else []


def norm_impl(cfgs):
    """FluffConfig._configs -> plain nested dict, derived keys dropped (ignore/warnings stay: they are lists)"""
    def walk(d, top):
        out = {}
        for k, v in d.items():
            if top and k in DERIVED:
                continue
            out[k] = walk(v, False) if isinstance(v, dict) else (list(v) if isinstance(v, list) else v)
        return out
    out = {}
    for k, v in cfgs.items():
        if k == "core" and isinstance(v, dict):
            out[k] = walk(v, True)
        else:
            out[k] = walk(v, False) if isinstance(v, dict) else v
    return out


def model_to_py(tree):
    """model result (nested dict of raw texts) -> what norm_impl of the implementation's _configs should be"""
    def walk(d):
        return {k: (walk(v) if isinstance(v, dict) else dec(v)) for k, v in d.items()}
    out = walk(tree)
    core = out.get("core")
    if isinstance(core, dict):
        for k in SPLIT_KEYS:
            v = core.get(k)
            if isinstance(v, dict):
                continue
            core[k] = split_csv(v) if isinstance(v, (str, list)) or not v else v
    return out


def tree_eq(a, b, ordered=True):
    if isinstance(a, dict) != isinstance(b, dict):
        return False
    if isinstance(a, dict):
        if ordered and list(a.keys()) != list(b.keys()):
            return False
        if set(a.keys()) != set(b.keys()):
            return False
        return all(tree_eq(a[k], b[k], ordered) for k in a)
    if isinstance(a, list) or isinstance(b, list):
        return a == b
    return same_val(a, b)


def first_diff(a, b, path=()):
    if isinstance(a, dict) and isinstance(b, dict):
        for k in list(a.keys()) + [k for k in b if k not in a]:
            if k not in a:
                return {"path": list(path + (k,)), "model": "<absent>", "impl": repr(b[k])[:200]}
            if k not in b:
                return {"path": list(path + (k,)), "model": repr(a[k])[:200], "impl": "<absent>"}
            d = first_diff(a[k], b[k], path + (k,))
            if d:
                return d
        if list(a.keys()) != list(b.keys()):
            return {"path": list(path), "key_order_model": list(a.keys()), "key_order_impl": list(b.keys())}
        return None
    if isinstance(a, dict) or isinstance(b, dict) or not (a == b if isinstance(a, list) or isinstance(b, list) else same_val(a, b)):
        return {"path": list(path), "model": repr(a)[:200], "impl": repr(b)[:200]}
    return None


class Redirect:
    """HOME / XDG_CONFIG_HOME / cwd redirected into the scenario tree (the loader reads ~, the user config dir and cwd)"""

    def __init__(self, home, xdg, cwd):
        self.home, self.xdg, self.cwd = home, xdg, cwd

    def __enter__(self):
        self.old = {k: os.environ.get(k) for k in ("HOME", "XDG_CONFIG_HOME")}
        self.oldcwd = os.getcwd()
        os.environ["HOME"] = self.home
        if self.xdg is None:
            os.environ.pop("XDG_CONFIG_HOME", None)
        else:
            os.environ["XDG_CONFIG_HOME"] = self.xdg
        os.chdir(self.cwd)
        return self

    def __exit__(self, *a):
        os.chdir(self.oldcwd)
        for k, v in self.old.items():
            if v is None:
                os.environ.pop(k, None)
            else:
                os.environ[k] = v


def clear_caches():
    from sqlfluff.core.config import file as cfile
    from sqlfluff.core.config import loader
    loader.load_config_at_path.cache_clear()
    cfile.load_config_file_as_dict.cache_clear()


# ------------------------------------------------------------------------------------------------------------------------
# scenarios

FILENAMES = ["setup.cfg", "tox.ini", "pep8.ini", ".sqlfluff", "pyproject.toml"]

# (section path, option) -> candidate raw values (ini text). toml-expressible unless the value decodes to None.
VOCAB = [
    (("core",), "dialect", ["ansi", "postgres", "tsql"]),
    (("core",), "max_line_length", ["50", "60", "70", "80", "100", "0"]),
    (("core",), "verbose", ["0", "1", "2"]),
    (("core",), "nocolor", ["True", "False"]),
    (("core",), "rules", ["all", "LT05", "CP01", "LT05,CP01", "CP01, LT05 ,LT01"]),
    (("core",), "exclude_rules", ["None", "LT05", "CP01", "LT01,LT02"]),
    (("core",), "ignore", ["None", "parsing", "templating,parsing", ""]),
    (("core",), "warnings", ["None", "LT01", "LT01,CP01"]),
    (("core",), "templater", ["jinja", "raw"]),
    (("core",), "large_file_skip_byte_limit", ["20000", "0", "100000"]),
    (("core",), "fix_even_unparsable", ["True", "False"]),
    (("indentation",), "tab_space_size", ["2", "4", "8"]),
    (("indentation",), "indent_unit", ["space", "tab"]),
    (("indentation",), "indented_joins", ["True", "False"]),
    (("rules", "capitalisation.keywords"), "capitalisation_policy", ["upper", "lower", "consistent", "capitalise"]),
    (("rules", "capitalisation.identifiers"), "extended_capitalisation_policy", ["upper", "lower", "consistent"]),
    (("rules", "layout.long_lines"), "ignore_comment_lines", ["True", "False"]),
    (("rules", "aliasing.table"), "aliasing", ["explicit", "implicit"]),
    (("templater", "jinja"), "apply_dbt_builtins", ["True", "False"]),
    (("templater", "jinja", "context"), "my_var", ["1", "abc", "x y", "1.5"]),
    (("templater", "jinja", "context"), "ns.inner", ["7", "q"]),
    (("xsec",), "ya", ["1", "v", "true", "3.25"]),
    (("xsec",), "yb", ["2", "w"]),
    (("xsec", "ya"), "zb", ["5", "u"]),            # section where xsec:ya may be a value elsewhere -> overwrite / ValueError
    (("xsec", "ya"), "zc.wd", ["6"]),
    (("xsec",), "yb.zq", ["8"]),                   # dotted option: section xsec:yb
    (("xsec", "yc", "zd"), "we", ["9", "None"]),
]

FOREIGN_SECTIONS = [("flake8", [("max-line-length", "100")]), ("tool:pytest", [("addopts", "-q")]), ("metadata", [("name", "x")])]


def toml_lit(v):
    if v is True:
        return "true"
    if v is False:
        return "false"
    if isinstance(v, (int, float)):
        return repr(v)
    return json.dumps(v)


def gen_settings(rng, n, avoid_none=False, pool=None):
    """a list of distinct (section_path, option, raw_value)"""
    out, seen = [], set()
    for _ in range(n * 3):
        if len(out) >= n:
            break
        sec, opt, vals = rng.choice(pool or VOCAB)
        if (sec, opt) in seen:
            continue
        v = rng.choice(vals)
        if avoid_none and (dec(v) is None or not same_val(dec(enc(dec(v))), dec(v))):
            continue
        seen.add((sec, opt))
        out.append((sec, opt, v))
    return out


def ini_file(rng, settings, with_foreign):
    """-> (text, sections view [(name, [(opt, raw)])])"""
    by = {}
    for sec, opt, v in settings:
        by.setdefault(sec, []).append((opt, v))
    secs = list(by.items())
    rng.shuffle(secs)
    view = []
    for sec, items in secs:
        name = "sqlfluff" if sec == ("core",) else "sqlfluff:" + ":".join(sec)
        view.append((name, items))
    if with_foreign:
        view.insert(rng.randrange(len(view) + 1), rng.choice(FOREIGN_SECTIONS))
    lines = []
    for name, items in view:
        lines.append("[%s]" % name)
        for opt, v in items:
            lines.append("%s = %s" % (opt, v) if v != "" else "%s =" % opt)
        lines.append("")
    return "\n".join(lines), view


def toml_file(settings):
    """-> (text, nested dict of python values as tomllib yields it (leaves before sub-tables))"""
    tree = {}
    for sec, opt, v in settings:
        path = []
        for s in sec:
            path += s.split(".") if sec[0] == "rules" else [s]   # rule names are written as nested tables
        node = tree
        for s in path:
            node = node.setdefault(s, {})
            if not isinstance(node, dict):
                raise ValueError("conflict in toml spec")
        names = opt.split(".")
        for s in names[:-1]:
            node = node.setdefault(s, {})
        node[names[-1]] = dec(v)

    def leaves_first(d):
        out = {k: v for k, v in d.items() if not isinstance(v, dict)}
        for k, v in d.items():
            if isinstance(v, dict):
                out[k] = leaves_first(v)
        return out
    tree = leaves_first(tree)
    lines = ["[build-system]", 'requires = ["setuptools"]', ""]

    def emit(prefix, d):
        leaves = [(k, v) for k, v in d.items() if not isinstance(v, dict)]
        if leaves or not d:
            lines.append("[%s]" % ".".join(prefix))
            for k, v in leaves:
                lines.append("%s = %s" % (json.dumps(k) if not k.replace("_", "").isalnum() else k, toml_lit(v)))
            lines.append("")
        for k, v in d.items():
            if isinstance(v, dict):
                emit(prefix + [json.dumps(k) if not k.replace("_", "").isalnum() else k], v)
    if tree:
        emit(["tool", "sqlfluff"], tree)
    return "\n".join(lines), tree


INLINE_GOOD = [
    ("max_line_length", ["50", "60", "70", "80", "100"]),
    ("rules", ["LT05", "CP01", "all"]),
    ("exclude_rules", ["LT05", "None"]),
    ("dialect", ["ansi", "postgres"]),
    ("verbose", ["1"]),
    ("indentation:tab_space_size", ["2", "8"]),
    ("rules:capitalisation.keywords:capitalisation_policy", ["upper", "lower"]),
    ("templater:jinja:context:my_var", ["5", "C:\\Users\\x", '{"k":"v"}', '[{"k":"v"}]', "a:b"]),
    ("xsec:ya", ["11"]),
    ("xsec:ya:zb", ["12"]),
    ("xsec:ya:zb:wc", ["13"]),
    ("xsec:yn:zn", ["14"]),
    ("ignore", ["parsing", "None"]),
]
INLINE_MALFORMED = [
    "-- sqlfluff", "--sqlfluff", "-- sqlfluff:", "-- sqlfluff:max_line_length", "-- sqlfluff:disable=AM04", "-- sqlfluffx:max_line_length:5",
    "--  sqlfluff:max_line_length:5", " -- sqlfluff:max_line_length:5", "-- sqlfluff :max_line_length:5", "-- sqlfluff:  :  :", "-- sqlfluff:::",
    "-- sqlfluff:xsec::7", "--sqlfluff:xsec:\u00a0ya\u2003:\u30007 ", "-- sqlfluff:xsec:yk:\t8\x0b", "-- SQLFLUFF:max_line_length:5", "# sqlfluff:max_line_length:5",
    "-- sqlfluff:xsec:yk:9 -- trailing", "-- sqlfluff:templater:jinja:context:p:C:\\x", "-- sqlfluff:xsec:[a:b]", "-- sqlfluff:xsec:yk:{a:b", "--sqlfluff:xsec:yq:a:",
]
LINESEPS = ["\n", "\n", "\n", "\r\n", "\r", "\x0b", "\x0c", "\x1c", "\x1d", "\x1e", "\x85", "\u2028", "\u2029"]

SQL_BODIES = [
    "select 1\n",
    "SELECT col_a, col_b from some_table_name WHERE col_a = 1 and col_b = 2 AND col_c = 3\n",      # 84 chars, mixed case
    "select\n    a,\n        b\nfrom t\n",
    "SELECT a FROM t WHERE a = 1 AND b = 2 AND c = 3 AND d = 4 AND e = 5 AND f = 6\n",                # 77 chars
]


def gen_inline(rng, malformed):
    lines = []
    for _ in range(rng.choice([0, 1, 1, 2, 3])):
        if malformed and rng.random() < 0.5:
            lines.append(rng.choice(INLINE_MALFORMED))
        else:
            k, vals = rng.choice(INLINE_GOOD)
            pre = rng.choice(["-- sqlfluff:", "--sqlfluff:", "-- sqlfluff: ", "--   sqlfluff:" if malformed else "-- sqlfluff:"])
            sepv = rng.choice([":", ":", " : ", ": "])
            lines.append(pre + k + sepv + rng.choice(vals) + rng.choice(["", "", " ", "\t"]))
    return lines


class Scenario:
    """dirs: {path tuple: {fname: ("ini", text, view) | ("toml", text, tree)}}; every directory of the tree is a key."""

    def __init__(self):
        self.dirs = {(): {}}
        self.home = ("home",)
        self.xdg = None
        self.cwd = ("home", "proj")
        self.sql = []           # [(path tuple, text)]
        self.extra = None       # path tuple of the extra config file
        self.ignore_local = False
        self.overrides = {}     # option -> raw text
        self.decoys = []        # directories named like config files
        self.label = ""

    def mkdir(self, p):
        for i in range(len(p) + 1):
            self.dirs.setdefault(tuple(p[:i]), {})

    def add_file(self, rng, d, fname, settings, with_foreign=False):
        self.mkdir(d)
        if fname == "pyproject.toml":
            text, tree = toml_file(settings)
            self.dirs[d][fname] = ("toml", text, tree)
        else:
            text, view = ini_file(rng, settings, with_foreign)
            self.dirs[d][fname] = ("ini", text, view)

    # ---- materialise
    def write(self, root):
        for d, files in self.dirs.items():
            os.makedirs(os.path.join(root, *d), exist_ok=True)
            for fname, (kind, text, _v) in files.items():
                with open(os.path.join(root, *d, fname), "w", encoding="utf-8", newline="") as f:
                    f.write(text)
        for d in self.decoys:
            os.makedirs(os.path.join(root, *d), exist_ok=True)
        for p, text in self.sql:
            with open(os.path.join(root, *p), "w", encoding="utf-8", newline="") as f:
                f.write(text)

    # ---- Coq
    def coq_fs(self):
        ents = []
        for d, files in list(self.dirs.items()) + [(tuple(x), {}) for x in self.decoys]:
            fl = []
            for fname, (kind, _t, v) in files.items():
                if kind == "ini":
                    fl.append("(%s, FIni %s)" % (ctext(fname), cini(v)))
                else:
                    fl.append("(%s, FToml %s)" % (ctext(fname), cdict(enc_tree(v))))
            ents.append("(%s, %s)" % (cpath(d), "[" + "; ".join(fl) + "]" if fl else "(@nil (text * fcontent text))"))
        return "[" + "; ".join(ents) + "]"

    def coq_env(self):
        return "(mkEnv %s %s %s)" % (cpath(self.home), copt(self.xdg, cpath), cpath(self.cwd))

    def coq_root(self, defaults_name="defaults"):
        ov = {k: v for k, v in self.overrides.items()}
        return "(mkRoot %s %s %s %s)" % (defaults_name, copt(self.extra, cpath), "true" if self.ignore_local else "false", cdict(ov))

    def coq_files(self):
        return "[" + "; ".join("(%s, %s)" % (cpath(p), ctext(t)) for p, t in self.sql) + "]" if self.sql else "(@nil (path * text))"

    def describe(self):
        return {
            "label": self.label, "home": "/".join(self.home), "xdg": None if self.xdg is None else "/".join(self.xdg), "cwd": "/".join(self.cwd),
            "extra": None if self.extra is None else "/".join(self.extra), "ignore_local_config": self.ignore_local, "overrides": self.overrides,
            "files": {"/".join(d + (f,)): files[f][1] for d, files in self.dirs.items() for f in files},
            "sql": {"/".join(p): t for p, t in self.sql},
        }


def gen_scenario(rng, malformed=False, conflicts=True):
    sc = Scenario()
    layout = rng.choice(["under_home", "under_home", "under_home", "outside_home", "cwd_is_home", "file_outside_cwd"])
    if layout == "under_home":
        sc.home = ("home",)
        sc.cwd = ("home",) + tuple(rng.choice([("proj",), ("work", "proj"), ("w", "x", "proj")]))
    elif layout == "outside_home":
        sc.home = ("home",)
        sc.cwd = ("srv", "proj")
    elif layout == "cwd_is_home":
        sc.home = ("home",)
        sc.cwd = ("home",)
    else:
        sc.home = ("home",)
        sc.cwd = ("home", "proj", "app")
    sc.label = layout
    sc.mkdir(sc.home)
    sc.mkdir(sc.cwd)
    pool = VOCAB if conflicts else [v for v in VOCAB if v[0][0] != "xsec"]
    # sql files: nested below cwd, siblings, (some) outside cwd
    sub_a = sc.cwd + ("a",)
    sub_ab = sc.cwd + ("a", "b")
    sub_c = sc.cwd + ("c",)
    cands = [sc.cwd, sub_a, sub_ab, sub_c]
    if layout == "file_outside_cwd":
        cands += [("home", "proj", "lib"), ("home", "proj")]
    if rng.random() < 0.15:
        cands.append(("elsewhere", "q"))
    for d in cands:
        sc.mkdir(d)
    nfiles = rng.choice([2, 3, 3, 4, 5])
    used = set()
    for i in range(nfiles):
        d = rng.choice(cands)
        name = "f%d.sql" % i
        body = rng.choice(SQL_BODIES) if not malformed else "select 1\n"
        inl = gen_inline(rng, malformed)
        sep = rng.choice(LINESEPS) if malformed else "\n"
        pos = rng.choice(["top", "top", "top", "mid", "end"])
        ltxt = "".join(l + sep for l in inl)
        text = ltxt + body if pos == "top" else (body + ltxt if pos == "end" else "select 0;\n" + ltxt + body)
        sc.sql.append((d + (name,), text))
        used.add(d)
    # config files along the chains
    dirs_for_cfg = [sc.home, sc.cwd, sub_a, sub_ab, sub_c] + [tuple(sc.cwd[:i]) for i in range(1, len(sc.cwd))] + [()]
    if layout == "file_outside_cwd":
        dirs_for_cfg += [("home", "proj", "lib"), ("home", "proj")]
    if ("elsewhere", "q") in sc.dirs:
        dirs_for_cfg += [("elsewhere",), ("elsewhere", "q")]
    for d in dirs_for_cfg:
        if rng.random() < 0.55:
            k = rng.choice([1, 1, 1, 2, 2, 3])
            for fname in rng.sample(FILENAMES, k):
                toml = fname == "pyproject.toml"
                try:
                    sc.add_file(rng, tuple(d), fname, gen_settings(rng, rng.choice([1, 2, 3, 4]), avoid_none=toml, pool=pool), with_foreign=fname in ("setup.cfg", "tox.ini") and rng.random() < 0.5)
                except ValueError:
                    pass
    # user config dir: ~/.config/sqlfluff or $XDG_CONFIG_HOME/sqlfluff
    r = rng.random()
    if r < 0.3:
        d = sc.home + (".config", "sqlfluff")
        sc.add_file(rng, d, rng.choice([".sqlfluff", "setup.cfg"]), gen_settings(rng, 2, pool=pool))
    if 0.2 < r < 0.6:
        sc.xdg = ("xdg",)
        sc.mkdir(sc.xdg)
        if rng.random() < 0.8:
            sc.add_file(rng, ("xdg", "sqlfluff"), ".sqlfluff", gen_settings(rng, 2, pool=pool))
    # a dialect somewhere low so that most files can be linted
    if rng.random() < 0.8:
        base = rng.choice([sc.home, sc.cwd])
        if ".sqlfluff" not in sc.dirs[base]:
            sc.add_file(rng, base, ".sqlfluff", [(("core",), "dialect", rng.choice(["ansi", "ansi", "postgres"]))] + gen_settings(rng, 2, pool=[v for v in pool if v[1] != "dialect"]))
    if rng.random() < 0.35:
        sc.mkdir(("cfg",))
        fname = rng.choice(["extra.cfg", ".sqlfluff", "pyproject.toml", "my.toml"])
        toml = fname == "pyproject.toml"
        sc.add_file(rng, ("cfg",), fname, gen_settings(rng, 3, avoid_none=toml, pool=pool))
        sc.extra = ("cfg", fname)
    if rng.random() < 0.12:
        sc.ignore_local = True
    if rng.random() < 0.5:
        for sec, opt, v in gen_settings(rng, rng.choice([1, 2]), pool=[v for v in VOCAB if v[0] == ("core",)]):
            sc.overrides[opt] = v
    if malformed and rng.random() < 0.3:
        sc.decoys.append(tuple(rng.choice([sc.cwd, sub_a])) + (rng.choice([".sqlfluff", "setup.cfg"]),))
        sc.decoys = [d for d in sc.decoys if d[-1] not in sc.dirs.get(d[:-1], {})]
    return sc


# ------------------------------------------------------------------------------------------------------------------------
# Coq side of the scenario runs: results compressed against the shipped defaults

COQ_DEFS2 = r'''
Fixpoint cfg_eqb (a b : cfg text) {struct a} : bool :=
  match a, b with
  | Leaf x, Leaf y => text_eqb x y
  | Dict l1, Dict l2 =>
      (fix go (l1 l2 : list (key * cfg text)) {struct l1} : bool :=
         match l1, l2 with
         | [], [] => true
         | (k1, x1) :: r1, (k2, x2) :: r2 => text_eqb k1 k2 && cfg_eqb x1 x2 && go r1 r2
         | _, _ => false
         end) l1 l2
  | _, _ => false
  end.
Inductive zcfg := ZSame | ZL (v : ot) | ZD (l : list (ot * zcfg)).
Fixpoint compress (dflt : option (cfg text)) (x : cfg text) {struct x} : zcfg :=
  let same := match dflt with Some y => cfg_eqb x y | None => false end in
  if same then ZSame else
  match x with
  | Leaf v => ZL (enc_text v)
  | Dict l =>
      ZD ((fix go (l : list (key * cfg text)) : list (ot * zcfg) :=
             match l with
             | [] => []
             | (k, x') :: r =>
                 (enc_text k, compress (match dflt with Some (Dict dl) => dget text k dl | _ => None end) x') :: go r
             end) l)
  end.
Definition zres (dflt : dict text) (r : res (dict text)) : res zcfg :=
  match r with Ok d => Ok (compress (Some (Dict dflt)) (Dict d)) | Err e => Err e end.
Definition enc_paths (l : list path) := map (map enc_text) l.
'''


def dec_zcfg(o, dflt):
    if o[0] == "ZSame":
        return copy.deepcopy(dflt)
    if o[0] == "ZL":
        return dec_ot(o[1])
    items = o[1] if len(o) > 1 else []
    out = {}
    for k, v in items:
        kk = dec_ot(k)
        out[kk] = dec_zcfg(v, dflt.get(kk) if isinstance(dflt, dict) else None)
    return out


def dec_zres(r, dflt):
    if r[0] == "Ok":
        return ("ok", dec_zcfg(r[1], dflt))
    return ("err", r[1][0])


def real_defaults():
    from sqlfluff.core.helpers.dict import nested_combine
    from sqlfluff.core.plugin.host import get_plugin_manager
    return nested_combine(*get_plugin_manager().hook.load_default_config())


def scenario_term(sc, iter_queries):
    q = "[" + "; ".join("(%s, %s)" % (cpath(a), cpath(b)) for a, b in iter_queries) + "]" if iter_queries else "(@nil (path * path))"
    return ("(let f := %s in (map (zres defaults) (run text idc f %s %s %s), "
            "map (fun po => enc_paths (iter_intermediate_paths text f (fst po) (snd po))) %s, "
            "fs_wfb text f && wfdb text (r_overrides text %s)))") % (
        sc.coq_fs(), sc.coq_env(), sc.coq_root(), sc.coq_files(), q, sc.coq_root())


# ------------------------------------------------------------------------------------------------------------------------
# running the real code on a scenario

def spell(root, cwd, p, rng):
    """how a path is spelled on the command line: relative to cwd when below it (sometimes absolute), absolute otherwise"""
    full = os.path.join(root, *p)
    cw = os.path.join(root, *cwd)
    if tuple(p[:len(cwd)]) == tuple(cwd) and rng.random() < 0.7:
        return os.path.relpath(full, cw)
    return full


def impl_kwargs(sc, root, rng):
    kw = {"ignore_local_config": sc.ignore_local}
    if sc.extra is not None:
        kw["extra_config_path"] = spell(root, sc.cwd, sc.extra, rng)
    if sc.overrides:
        kw["overrides"] = {k: dec(v) for k, v in sc.overrides.items()}
    return kw


def read_as_linter(path):
    """what load_raw_file_and_config reads (utf-8 / autodetect, universal newlines)"""
    with open(path, encoding="utf-8", errors="backslashreplace") as f:
        return f.read()


def impl_direct(sc, root, rng):
    """FluffConfig.from_path + process_raw_file_for_config for every sql file -> [("ok", tree) | ("err", kind, repr)]"""
    from sqlfluff.core import FluffConfig
    out = []
    for p, text in sc.sql:
        try:
            cfg = FluffConfig.from_path(spell(root, sc.cwd, p, rng), require_dialect=False, **impl_kwargs(sc, root, rng))
            cfg.process_raw_file_for_config(text, "/".join(p))
            out.append(("ok", norm_impl(cfg._configs), cfg))
        except Exception as e:  # noqa: BLE001 - every exception class is an outcome of the model
            out.append(("err", exc_kind(e), repr(e)[:300]))
    return out


class Capture:
    """wraps the static/class methods the runner goes through; records the config of every file at load and at lint time"""

    def __init__(self):
        self.events = []

    def __enter__(self):
        from sqlfluff.core import Linter
        self.Linter = Linter
        self.saved = {n: Linter.__dict__[n] for n in ("load_raw_file_and_config", "lint_rendered", "get_rulepack")}
        ev = self.events
        orig_load = self.saved["load_raw_file_and_config"].__func__
        orig_lr = self.saved["lint_rendered"].__func__
        orig_rp = self.saved["get_rulepack"]

        def load(fname, root_config):
            raw, cfg, encoding = orig_load(fname, root_config)
            ev.append(("load", os.path.abspath(fname), norm_impl(cfg._configs), raw))
            return raw, cfg, encoding

        def lint_rendered(cls, rendered, rule_pack, fix=False, formatter=None):
            ev.append(("lint", os.path.abspath(rendered.fname), norm_impl(rendered.config._configs), None))
            return orig_lr(cls, rendered, rule_pack, fix, formatter)

        def get_rulepack(slf, config=None):
            if config is not None:
                ev.append(("rulepack", None, norm_impl(config._configs), None))
            return orig_rp(slf, config)

        Linter.load_raw_file_and_config = staticmethod(load)
        Linter.lint_rendered = classmethod(lint_rendered)
        Linter.get_rulepack = get_rulepack
        return self

    def __exit__(self, *a):
        for n, v in self.saved.items():
            setattr(self.Linter, n, v)


def viol_sig(linted_file):
    return sorted((v.rule_code(), v.line_no, v.line_pos, v.desc()[:60]) for v in linted_file.violations)
