"""C27 — configuration precedence and isolation.

Correspondence: Model/Config.v against the real helpers (nested_combine, records_to_nested_dict, iter_records_from_nested_dict,
split_colon_separated_string, str.strip/splitlines tables, load_ini_string, load_toml_file_config, iter_intermediate_paths,
FluffConfig.set_value / process_raw_file_for_config) and against whole generated hierarchies (FluffConfig.from_path +
process_raw_file_for_config, Linter.load_raw_file_and_config, Linter.lint_paths over sequences of files in several orders with
warm caches).  Monitor: the property in its own words (precedence ladder oracle, file-alone == file-in-a-sequence, LT05 line set
predicted from the effective max_line_length, lint_string inline directives, CLI).
"""
import ast
import configparser
import copy
import io
import itertools
import json
import os
import shutil
import tempfile

from harness import coq

LEVEL = "proof"
COQ_TARGETS = ["theories/Properties/C27.vo"]
PROPERTY_FILES = ["theories/Properties/C27.v"]
RULE = ("(1) exhaustive small scopes: nested_combine on all pairs (and sampled triples/quadruples) of 64 two-key dicts of depth<=2, set_value / "
        "records_to_nested_dict on all paths of length<=3 over them, split_colon_separated_string on all strings of length<=4/5 over a 7-letter "
        "alphabet, str.isspace / splitlines tables over U+0000..U+3100; (2) seeded config hierarchies in a temp dir (setup.cfg, tox.ini, pep8.ini, "
        ".sqlfluff, pyproject.toml in user appdir / XDG dir / home / dirs above the working dir / working dir / nested dirs / sibling dirs / dirs "
        "outside the working dir, extra config file, ignore_local_config, CLI overrides, inline directives incl. malformed ones, value-vs-section "
        "conflicts) x every sql file: FluffConfig.from_path+process_raw_file_for_config and Linter.load_raw_file_and_config vs the model, then "
        "Linter.lint_paths over the files in 3-4 orders in one process with warm caches (config captured at load and at lint time) vs the model; "
        "(3) precedence ladder: every subset of 10 layers setting one key, winner predicted by an independent oracle; file alone vs file in a sequence; "
        "LT05 lines predicted from the effective max_line_length; lint_string/parse_string inline directives; CLI. "
        "non-trivial = a file whose effective config differs from the defaults in a key set by >= 2 layers, or an error outcome; "
        "distinct = distinct (hierarchy, file)")
ASSUMPTIONS = [
    "validate_config_dict is the identity on the generated key vocabulary (no removed/layout/max_parse_* keys)",
    "_resolve_paths_in_config is the identity (no *_path / *_dir keys); no symlinks in the hierarchy",
    "configparser / tomllib are the parsers (their view of a file is the model's input: sections+items, resp. the tool.sqlfluff table)",
    "derived keys written into core after combination (color, rule_allowlist, rule_denylist, dialect_obj, templater_obj, split ignore/warnings) are "
    "outside the model; the monitor checks them against the effective raw values",
    "values are compared through ini.coerce_value (model values are raw texts); TypeError/AttributeError/OSError/SQLFluffUserError all map to ERuntime",
    "POSIX paths (a common path always exists)",
]
TRUSTED_BASE = ["hand model Model/Config.v of dict.py / loader.py / file.py / ini.py / toml.py / fluffconfig.py (config part)",
                "scenario materialiser and value encoding in harness/props/c27.py; HOME / XDG_CONFIG_HOME / cwd redirection"]

DERIVED = ("color", "rule_allowlist", "rule_denylist", "dialect_obj", "templater_obj")
SPLIT_KEYS = ("ignore", "warnings")
TAG = "\x00s:"


# ------------------------------------------------------------------------------------------------------------------------
# value encoding: model values are raw texts t; the python value they stand for is dec(t)

def dec(t):
    from sqlfluff.core.config.ini import coerce_value
    if t.startswith(TAG):
        return t[len(TAG):]
    return coerce_value(t)


def same_val(a, b):
    if type(a) is not type(b):
        return False
    if isinstance(a, float) and a != a and b != b:
        return True
    return a == b


def enc(v):
    """a text whose dec() is v (same type)"""
    if v is None:
        t = "None"
    elif v is True:
        t = "True"
    elif v is False:
        t = "False"
    elif isinstance(v, (int, float)):
        t = repr(v)
    elif isinstance(v, str):
        t = v
    else:
        raise ValueError("cannot encode config value %r" % (v,))
    if not same_val(dec(t), v):
        if isinstance(v, str):
            t = TAG + v
        if not same_val(dec(t), v):
            raise ValueError("config value %r does not round-trip" % (v,))
    return t


def enc_tree(d):
    return {k: (enc_tree(v) if isinstance(v, dict) else enc(v)) for k, v in d.items()}


# ------------------------------------------------------------------------------------------------------------------------
# Coq literals

def _plain(s):
    return all(32 <= ord(c) < 127 and c != '"' for c in s)


def ctext(s):
    if s == "":
        return "(@nil N)"
    if _plain(s):
        return '(lit "%s")' % s
    return "[" + ";".join(str(ord(c)) for c in s) + "]%N"


def cpath(p):
    return "(@nil text)" if not p else "[" + "; ".join(ctext(x) for x in p) + "]"


def ccfg(v):
    if isinstance(v, dict):
        return "(Dict %s)" % cdict(v)
    return "(Leaf %s)" % ctext(v)


def cdict(d):
    if not d:
        return "(@nil (key * cfg text))"
    return "[" + "; ".join("(%s, %s)" % (ctext(k), ccfg(v)) for k, v in d.items()) + "]"


def cini(sections):
    if not sections:
        return "(@nil (text * list (text * text)))"
    out = []
    for name, items in sections:
        its = "(@nil (text * text))" if not items else "[" + "; ".join("(%s, %s)" % (ctext(k), ctext(v)) for k, v in items) + "]"
        out.append("(%s, %s)" % (ctext(name), its))
    return "[" + "; ".join(out) + "]"


def copt(x, f):
    return "None" if x is None else "(Some %s)" % f(x)


COQ_DEFS = r'''
From Coq Require Import String Ascii.
Definition idc (t : text) : text := t.
(* `coerce_value(t) is None`: t.strip().lower() == "none" (texts that parse as numbers are not "none") *)
Definition lowerc (c : N) : N := if ((65 <=? c) && (c <=? 90))%N then (c + 32)%N else c.
Definition isn (t : text) : bool := text_eqb (map lowerc (strip t)) (lit "none").
Definition is_plain (c : N) : bool := ((32 <=? c) && (c <? 127) && negb (c =? 34))%N.
Inductive ot := OS (s : string) | OT (t : text).
Definition enc_text (t : text) : ot := if forallb is_plain t then OS (string_of_list_ascii (map ascii_of_N t)) else OT t.
Inductive ocfg := OL (v : ot) | OD (l : list (ot * ocfg)).
Fixpoint enc_cfg (c : cfg text) : ocfg :=
  match c with
  | Leaf v => OL (enc_text v)
  | Dict l => OD ((fix go (l : list (key * cfg text)) := match l with [] => [] | (k, x) :: r => (enc_text k, enc_cfg x) :: go r end) l)
  end.
Definition enc_res (r : res (dict text)) : res ocfg := match r with Ok d => Ok (enc_cfg (Dict d)) | Err e => Err e end.
Definition enc_recs (l : list (list key * text)) := map (fun kv => (map enc_text (fst kv), enc_text (snd kv))) l.
'''


def dec_ot(o):
    if o[0] == "OS":
        return o[1] if len(o) > 1 else ""
    if o[0] == "OT":
        return "".join(chr(c) for c in (o[1] if len(o) > 1 else []))
    raise ValueError("bad ot %r" % (o,))


def dec_ocfg(o):
    if o[0] == "OL":
        return dec_ot(o[1])
    assert o[0] == "OD", o
    items = o[1] if len(o) > 1 else []
    return {dec_ot(k): dec_ocfg(v) for (k, v) in items}


def dec_res(r):
    """-> ("ok", nested dict of texts) | ("err", kind)"""
    if r[0] == "Ok":
        return ("ok", dec_ocfg(r[1]))
    return ("err", r[1][0])


# ------------------------------------------------------------------------------------------------------------------------
# implementation side helpers

def exc_kind(e):
    n = type(e).__name__
    return {"ValueError": "EValue", "AssertionError": "EAssert", "IndexError": "EIndex", "KeyError": "EKey"}.get(n, "ERuntime")


def split_csv(v):
    from sqlfluff.core.helpers.string import split_comma_separated_string
    return split_comma_separated_string(v) if v else []


def norm_impl(cfgs):
    """FluffConfig._configs -> plain nested dict, derived keys dropped (ignore/warnings stay: they are lists)"""
    def walk(d, top):
        out = {}
        for k, v in d.items():
            if top and k in DERIVED:
                continue
            out[k] = walk(v, False) if isinstance(v, dict) else (list(v) if isinstance(v, list) else v)
        return out
    out = {}
    for k, v in cfgs.items():
        if k == "core" and isinstance(v, dict):
            out[k] = walk(v, True)
        else:
            out[k] = walk(v, False) if isinstance(v, dict) else v
    return out


def model_to_py(tree):
    """model result (nested dict of raw texts) -> what norm_impl of the implementation's _configs should be"""
    def walk(d):
        return {k: (walk(v) if isinstance(v, dict) else dec(v)) for k, v in d.items()}
    out = walk(tree)
    core = out.get("core")
    if isinstance(core, dict):
        for k in SPLIT_KEYS:
            v = core.get(k)
            if isinstance(v, dict):
                continue
            core[k] = split_csv(v) if isinstance(v, (str, list)) or not v else v
    return out


def tree_eq(a, b, ordered=True):
    if isinstance(a, dict) != isinstance(b, dict):
        return False
    if isinstance(a, dict):
        if ordered and list(a.keys()) != list(b.keys()):
            return False
        if set(a.keys()) != set(b.keys()):
            return False
        return all(tree_eq(a[k], b[k], ordered) for k in a)
    if isinstance(a, list) or isinstance(b, list):
        return a == b
    return same_val(a, b)


def first_diff(a, b, path=()):
    if isinstance(a, dict) and isinstance(b, dict):
        for k in list(a.keys()) + [k for k in b if k not in a]:
            if k not in a:
                return {"path": list(path + (k,)), "model": "<absent>", "impl": repr(b[k])[:200]}
            if k not in b:
                return {"path": list(path + (k,)), "model": repr(a[k])[:200], "impl": "<absent>"}
            d = first_diff(a[k], b[k], path + (k,))
            if d:
                return d
        if list(a.keys()) != list(b.keys()):
            return {"path": list(path), "key_order_model": list(a.keys()), "key_order_impl": list(b.keys())}
        return None
    if isinstance(a, dict) or isinstance(b, dict) or not (a == b if isinstance(a, list) or isinstance(b, list) else same_val(a, b)):
        return {"path": list(path), "model": repr(a)[:200], "impl": repr(b)[:200]}
    return None


class Redirect:
    """HOME / XDG_CONFIG_HOME / cwd redirected into the scenario tree (the loader reads ~, the user config dir and cwd)"""

    def __init__(self, home, xdg, cwd):
        self.home, self.xdg, self.cwd = home, xdg, cwd

    def __enter__(self):
        self.old = {k: os.environ.get(k) for k in ("HOME", "XDG_CONFIG_HOME")}
        self.oldcwd = os.getcwd()
        os.environ["HOME"] = self.home
        if self.xdg is None:
            os.environ.pop("XDG_CONFIG_HOME", None)
        else:
            os.environ["XDG_CONFIG_HOME"] = self.xdg
        os.chdir(self.cwd)
        # discovery.paths_from_path binds `working_path=os.getcwd()` when the module is imported; a real run starts in its
        # working directory, so give the default the value it would have there (otherwise the ignore-file search reads config
        # files between / and the file)
        from sqlfluff.core.linter import discovery
        self.pfp = discovery.paths_from_path
        self.old_defaults = self.pfp.__defaults__
        d = list(self.old_defaults)
        d[2] = os.getcwd()
        self.pfp.__defaults__ = tuple(d)
        return self

    def __exit__(self, *a):
        self.pfp.__defaults__ = self.old_defaults
        os.chdir(self.oldcwd)
        for k, v in self.old.items():
            if v is None:
                os.environ.pop(k, None)
            else:
                os.environ[k] = v


def clear_caches():
    from sqlfluff.core.config import file as cfile
    from sqlfluff.core.config import loader
    loader.load_config_at_path.cache_clear()
    cfile.load_config_file_as_dict.cache_clear()


# ------------------------------------------------------------------------------------------------------------------------
# scenarios

FILENAMES = ["setup.cfg", "tox.ini", "pep8.ini", ".sqlfluff", "pyproject.toml"]

# (section path, option) -> candidate raw values (ini text). toml-expressible unless the value decodes to None.
VOCAB = [
    (("core",), "dialect", ["ansi", "postgres", "tsql"]),
    (("core",), "max_line_length", ["50", "60", "70", "80", "100", "0"]),
    (("core",), "verbose", ["0", "1", "2"]),
    (("core",), "nocolor", ["True", "False"]),
    (("core",), "rules", ["all", "LT05", "CP01", "LT05,CP01", "CP01, LT05 ,LT01"]),
    (("core",), "exclude_rules", ["None", "LT05", "CP01", "LT01,LT02"]),
    (("core",), "ignore", ["None", "parsing", "templating,parsing", ""]),
    (("core",), "warnings", ["None", "LT01", "LT01,CP01"]),
    (("core",), "templater", ["jinja", "raw"]),
    (("core",), "large_file_skip_byte_limit", ["20000", "0", "100000"]),
    (("core",), "fix_even_unparsable", ["True", "False"]),
    (("indentation",), "tab_space_size", ["2", "4", "8"]),
    (("indentation",), "indent_unit", ["space", "tab"]),
    (("indentation",), "indented_joins", ["True", "False"]),
    (("rules", "capitalisation.keywords"), "capitalisation_policy", ["upper", "lower", "consistent", "capitalise"]),
    (("rules", "capitalisation.identifiers"), "extended_capitalisation_policy", ["upper", "lower", "consistent"]),
    (("rules", "layout.long_lines"), "ignore_comment_lines", ["True", "False"]),
    (("rules", "aliasing.table"), "aliasing", ["explicit", "implicit"]),
    (("templater", "jinja"), "apply_dbt_builtins", ["True", "False"]),
    (("templater", "jinja", "context"), "my_var", ["1", "abc", "x y", "1.5"]),
    (("templater", "jinja", "context"), "ns.inner", ["7", "q"]),
    (("xsec",), "ya", ["1", "v", "true", "3.25"]),
    (("xsec",), "yb", ["2", "w"]),
    (("xsec", "ya"), "zb", ["5", "u"]),            # section where xsec:ya may be a value elsewhere -> overwrite / ValueError
    (("xsec", "ya"), "zc.wd", ["6"]),
    (("xsec",), "yb.zq", ["8"]),                   # dotted option: section xsec:yb
    (("xsec", "yc", "zd"), "we", ["9", "None"]),
]

FOREIGN_SECTIONS = [("flake8", [("max-line-length", "100")]), ("tool:pytest", [("addopts", "-q")]), ("metadata", [("name", "x")])]


def toml_lit(v):
    if v is True:
        return "true"
    if v is False:
        return "false"
    if isinstance(v, (int, float)):
        return repr(v)
    return json.dumps(v)


def gen_settings(rng, n, avoid_none=False, pool=None):
    """a list of distinct (section_path, option, raw_value)"""
    out, seen = [], set()
    for _ in range(n * 3):
        if len(out) >= n:
            break
        sec, opt, vals = rng.choice(pool or VOCAB)
        if (sec, opt) in seen:
            continue
        v = rng.choice(vals)
        if avoid_none and (dec(v) is None or not same_val(dec(enc(dec(v))), dec(v))):
            continue
        seen.add((sec, opt))
        out.append((sec, opt, v))
    return out


def ini_file(rng, settings, with_foreign):
    """-> (text, sections view [(name, [(opt, raw)])])"""
    by = {}
    for sec, opt, v in settings:
        by.setdefault(sec, []).append((opt, v))
    secs = list(by.items())
    rng.shuffle(secs)
    view = []
    for sec, items in secs:
        name = "sqlfluff" if sec == ("core",) else "sqlfluff:" + ":".join(sec)
        view.append((name, items))
    if with_foreign:
        view.insert(rng.randrange(len(view) + 1), rng.choice(FOREIGN_SECTIONS))
    lines = []
    for name, items in view:
        lines.append("[%s]" % name)
        for opt, v in items:
            lines.append("%s = %s" % (opt, v) if v != "" else "%s =" % opt)
        lines.append("")
    return "\n".join(lines), view


def toml_file(settings):
    """-> (text, nested dict of python values as tomllib yields it (leaves before sub-tables))"""
    tree = {}
    for sec, opt, v in settings:
        path = []
        for s in sec:
            path += s.split(".") if sec[0] == "rules" else [s]   # rule names are written as nested tables
        node = tree
        for s in path:
            node = node.setdefault(s, {})
            if not isinstance(node, dict):
                raise ValueError("conflict in toml spec")
        names = opt.split(".")
        for s in names[:-1]:
            node = node.setdefault(s, {})
            if not isinstance(node, dict):
                raise ValueError("conflict in toml spec")
        if isinstance(node.get(names[-1]), dict):
            raise ValueError("conflict in toml spec")
        node[names[-1]] = dec(v)

    def leaves_first(d):
        out = {k: v for k, v in d.items() if not isinstance(v, dict)}
        for k, v in d.items():
            if isinstance(v, dict):
                out[k] = leaves_first(v)
        return out
    tree = leaves_first(tree)
    lines = ["[build-system]", 'requires = ["setuptools"]', ""]

    def emit(prefix, d):
        leaves = [(k, v) for k, v in d.items() if not isinstance(v, dict)]
        if leaves or not d:
            lines.append("[%s]" % ".".join(prefix))
            for k, v in leaves:
                lines.append("%s = %s" % (json.dumps(k) if not k.replace("_", "").isalnum() else k, toml_lit(v)))
            lines.append("")
        for k, v in d.items():
            if isinstance(v, dict):
                emit(prefix + [json.dumps(k) if not k.replace("_", "").isalnum() else k], v)
    if tree:
        emit(["tool", "sqlfluff"], tree)
    return "\n".join(lines), tree


INLINE_GOOD = [
    ("max_line_length", ["50", "60", "70", "80", "100"]),
    ("rules", ["LT05", "CP01", "all"]),
    ("exclude_rules", ["LT05", "None"]),
    ("dialect", ["ansi", "postgres"]),
    ("verbose", ["1"]),
    ("indentation:tab_space_size", ["2", "8"]),
    ("rules:capitalisation.keywords:capitalisation_policy", ["upper", "lower"]),
    ("templater:jinja:context:my_var", ["5", "C:\\Users\\x", '{"k":"v"}', '[{"k":"v"}]', "a:b"]),
    ("xsec:ya", ["11"]),
    ("xsec:ya:zb", ["12"]),
    ("xsec:ya:zb:wc", ["13"]),
    ("xsec:yn:zn", ["14"]),
    ("ignore", ["parsing", "None"]),
]
INLINE_MALFORMED = [
    "-- sqlfluff", "--sqlfluff", "-- sqlfluff:", "-- sqlfluff:max_line_length", "-- sqlfluff:disable=AM04", "-- sqlfluffx:max_line_length:5",
    "--  sqlfluff:max_line_length:5", " -- sqlfluff:max_line_length:5", "-- sqlfluff :max_line_length:5", "-- sqlfluff:  :  :", "-- sqlfluff:::",
    "-- sqlfluff:xsec::7", "--sqlfluff:xsec:\u00a0ya\u2003:\u30007 ", "-- sqlfluff:xsec:yk:\t8\x0b", "-- SQLFLUFF:max_line_length:5", "# sqlfluff:max_line_length:5",
    "-- sqlfluff:xsec:yk:9 -- trailing", "-- sqlfluff:templater:jinja:context:p:C:\\x", "-- sqlfluff:xsec:[a:b]", "-- sqlfluff:xsec:yk:{a:b", "--sqlfluff:xsec:yq:a:",
]
LINESEPS = ["\n", "\n", "\n", "\r\n", "\r", "\x0b", "\x0c", "\x1c", "\x1d", "\x1e", "\x85", "\u2028", "\u2029"]

SQL_BODIES = [
    "select 1\n",
    "SELECT col_a, col_b from some_table_name WHERE col_a = 1 and col_b = 2 AND col_c = 3\n",      # 84 chars, mixed case
    "select\n    a,\n        b\nfrom t\n",
    "SELECT a FROM t WHERE a = 1 AND b = 2 AND c = 3 AND d = 4 AND e = 5 AND f = 6\n",                # 77 chars
]


def gen_inline(rng, malformed):
    lines = []
    for _ in range(rng.choice([0, 1, 1, 2, 3])):
        if malformed and rng.random() < 0.5:
            lines.append(rng.choice(INLINE_MALFORMED))
        else:
            k, vals = rng.choice(INLINE_GOOD)
            pre = rng.choice(["-- sqlfluff:", "--sqlfluff:", "-- sqlfluff: ", "--   sqlfluff:" if malformed else "-- sqlfluff:"])
            sepv = rng.choice([":", ":", " : ", ": "])
            lines.append(pre + k + sepv + rng.choice(vals) + rng.choice(["", "", " ", "\t"]))
    return lines


class Scenario:
    """dirs: {path tuple: {fname: ("ini", text, view) | ("toml", text, tree)}}; every directory of the tree is a key."""

    def __init__(self):
        self.dirs = {(): {}}
        self.home = ("home",)
        self.xdg = None
        self.cwd = ("home", "proj")
        self.sql = []           # [(path tuple, text)]
        self.extra = None       # path tuple of the extra config file
        self.ignore_local = False
        self.overrides = {}     # option -> raw text
        self.decoys = []        # directories named like config files
        self.label = ""

    def mkdir(self, p):
        for i in range(len(p) + 1):
            self.dirs.setdefault(tuple(p[:i]), {})

    def add_file(self, rng, d, fname, settings, with_foreign=False):
        self.mkdir(d)
        if fname == "pyproject.toml":
            try:
                text, tree = toml_file(settings)
            except ValueError:      # a value and a table of the same name cannot be written in one toml file
                return
            self.dirs[d][fname] = ("toml", text, tree)
        else:
            text, view = ini_file(rng, settings, with_foreign)
            self.dirs[d][fname] = ("ini", text, view)

    # ---- materialise
    def write(self, root):
        for d, files in self.dirs.items():
            os.makedirs(os.path.join(root, *d), exist_ok=True)
            for fname, (kind, text, _v) in files.items():
                with open(os.path.join(root, *d, fname), "w", encoding="utf-8", newline="") as f:
                    f.write(text)
        for d in self.decoys:
            os.makedirs(os.path.join(root, *d), exist_ok=True)
        for p, text in self.sql:
            with open(os.path.join(root, *p), "w", encoding="utf-8", newline="") as f:
                f.write(text)

    # ---- Coq
    def coq_fs(self):
        ents = []
        for d, files in list(self.dirs.items()) + [(tuple(x), {}) for x in self.decoys]:
            fl = []
            for fname, (kind, _t, v) in files.items():
                if kind == "ini":
                    fl.append("(%s, FIni %s)" % (ctext(fname), cini(v)))
                else:
                    fl.append("(%s, FToml %s)" % (ctext(fname), cdict(enc_tree(v))))
            ents.append("(%s, %s)" % (cpath(d), "[" + "; ".join(fl) + "]" if fl else "(@nil (text * fcontent text))"))
        return "[" + "; ".join(ents) + "]"

    def coq_env(self):
        return "(mkEnv %s %s %s)" % (cpath(self.home), copt(self.xdg, cpath), cpath(self.cwd))

    def coq_root(self, defaults_name="defaults"):
        ov = {k: v for k, v in self.overrides.items()}
        return "(mkRoot %s %s %s %s)" % (defaults_name, copt(self.extra, cpath), "true" if self.ignore_local else "false", cdict(ov))

    def coq_files(self):
        return "[" + "; ".join("(%s, %s)" % (cpath(p), ctext(t)) for p, t in self.sql) + "]" if self.sql else "(@nil (path * text))"

    def describe(self):
        return {
            "label": self.label, "home": "/".join(self.home), "xdg": None if self.xdg is None else "/".join(self.xdg), "cwd": "/".join(self.cwd),
            "extra": None if self.extra is None else "/".join(self.extra), "ignore_local_config": self.ignore_local, "overrides": self.overrides,
            "files": {"/".join(d + (f,)): files[f][1] for d, files in self.dirs.items() for f in files},
            "sql": {"/".join(p): t for p, t in self.sql},
        }


def gen_scenario(rng, malformed=False, conflicts=True):
    sc = Scenario()
    layout = rng.choice(["under_home", "under_home", "under_home", "outside_home", "cwd_is_home", "file_outside_cwd"])
    if layout == "under_home":
        sc.home = ("home",)
        sc.cwd = ("home",) + tuple(rng.choice([("proj",), ("work", "proj"), ("w", "x", "proj")]))
    elif layout == "outside_home":
        sc.home = ("home",)
        sc.cwd = ("srv", "proj")
    elif layout == "cwd_is_home":
        sc.home = ("home",)
        sc.cwd = ("home",)
    else:
        sc.home = ("home",)
        sc.cwd = ("home", "proj", "app")
    sc.label = layout
    sc.mkdir(sc.home)
    sc.mkdir(sc.cwd)
    pool = VOCAB if conflicts else [v for v in VOCAB if v[0][0] != "xsec"]
    # sql files: nested below cwd, siblings, (some) outside cwd
    sub_a = sc.cwd + ("a",)
    sub_ab = sc.cwd + ("a", "b")
    sub_c = sc.cwd + ("c",)
    sub_ca = sc.cwd + ("c", "a")        # same base names as other directories: a cache keyed on anything but the full path shows
    sub_aa = sc.cwd + ("a", "a")
    cands = [sc.cwd, sub_a, sub_ab, sub_c, sub_ca, sub_aa]
    if layout == "file_outside_cwd":
        cands += [("home", "proj", "lib"), ("home", "proj")]
    if rng.random() < 0.15:
        cands.append(("elsewhere", "q"))
    for d in cands:
        sc.mkdir(d)
    nfiles = rng.choice([2, 3, 3, 4, 5])
    used = set()
    for i in range(nfiles):
        d = rng.choice(cands)
        name = "f%d.sql" % i
        body = rng.choice(SQL_BODIES) if not malformed else "select 1\n"
        inl = gen_inline(rng, malformed)
        sep = rng.choice(LINESEPS) if malformed else "\n"
        pos = rng.choice(["top", "top", "top", "mid", "end"])
        ltxt = "".join(l + sep for l in inl)
        text = ltxt + body if pos == "top" else (body + ltxt if pos == "end" else "select 0;\n" + ltxt + body)
        sc.sql.append((d + (name,), text))
        used.add(d)
    # config files along the chains
    dirs_for_cfg = [sc.home, sc.cwd, sub_a, sub_ab, sub_c, sub_ca, sub_aa] + [tuple(sc.cwd[:i]) for i in range(1, len(sc.cwd))] + [()]
    if layout == "file_outside_cwd":
        dirs_for_cfg += [("home", "proj", "lib"), ("home", "proj")]
    if ("elsewhere", "q") in sc.dirs:
        dirs_for_cfg += [("elsewhere",), ("elsewhere", "q")]
    for d in dirs_for_cfg:
        if rng.random() < 0.55:
            k = rng.choice([1, 1, 1, 2, 2, 3])
            for fname in rng.sample(FILENAMES, k):
                toml = fname == "pyproject.toml"
                sc.add_file(rng, tuple(d), fname, gen_settings(rng, rng.choice([1, 2, 3, 4]), avoid_none=toml, pool=pool), with_foreign=fname in ("setup.cfg", "tox.ini") and rng.random() < 0.5)
    # user config dir: ~/.config/sqlfluff or $XDG_CONFIG_HOME/sqlfluff
    r = rng.random()
    if r < 0.3:
        d = sc.home + (".config", "sqlfluff")
        sc.add_file(rng, d, rng.choice([".sqlfluff", "setup.cfg"]), gen_settings(rng, 2, pool=pool))
    if 0.2 < r < 0.6:
        sc.xdg = ("xdg",)
        sc.mkdir(sc.xdg)
        if rng.random() < 0.8:
            sc.add_file(rng, ("xdg", "sqlfluff"), ".sqlfluff", gen_settings(rng, 2, pool=pool))
    # a dialect somewhere low so that most files can be linted
    if rng.random() < 0.8:
        base = rng.choice([sc.home, sc.cwd])
        if ".sqlfluff" not in sc.dirs[base]:
            sc.add_file(rng, base, ".sqlfluff", [(("core",), "dialect", rng.choice(["ansi", "ansi", "postgres"]))] + gen_settings(rng, 2, pool=[v for v in pool if v[1] != "dialect"]))
    if rng.random() < 0.35:
        sc.mkdir(("cfg",))
        fname = rng.choice(["extra.cfg", ".sqlfluff", "pyproject.toml", "my.toml"])
        toml = fname == "pyproject.toml"
        sc.add_file(rng, ("cfg",), fname, gen_settings(rng, 3, avoid_none=toml, pool=pool))
        if fname in sc.dirs[("cfg",)]:
            sc.extra = ("cfg", fname)
    if rng.random() < 0.12:
        sc.ignore_local = True
    if rng.random() < 0.5:
        for sec, opt, v in gen_settings(rng, rng.choice([1, 2]), pool=[v for v in VOCAB if v[0] == ("core",)]):
            sc.overrides[opt] = v
    if malformed and rng.random() < 0.3:
        sc.decoys.append(tuple(rng.choice([sc.cwd, sub_a])) + (rng.choice([".sqlfluff", "setup.cfg"]),))
        sc.decoys = [d for d in sc.decoys if d[-1] not in sc.dirs.get(d[:-1], {})]
    return sc


# ------------------------------------------------------------------------------------------------------------------------
# Coq side of the scenario runs: results compressed against the shipped defaults

COQ_DEFS2 = r'''
Fixpoint cfg_eqb (a b : cfg text) {struct a} : bool :=
  match a, b with
  | Leaf x, Leaf y => text_eqb x y
  | Dict l1, Dict l2 =>
      (fix go (l1 l2 : list (key * cfg text)) {struct l1} : bool :=
         match l1, l2 with
         | [], [] => true
         | (k1, x1) :: r1, (k2, x2) :: r2 => text_eqb k1 k2 && cfg_eqb x1 x2 && go r1 r2
         | _, _ => false
         end) l1 l2
  | _, _ => false
  end.
Inductive zcfg := ZSame | ZL (v : ot) | ZD (l : list (ot * zcfg)).
Fixpoint compress (dflt : option (cfg text)) (x : cfg text) {struct x} : zcfg :=
  let same := match dflt with Some y => cfg_eqb x y | None => false end in
  if same then ZSame else
  match x with
  | Leaf v => ZL (enc_text v)
  | Dict l =>
      ZD ((fix go (l : list (key * cfg text)) : list (ot * zcfg) :=
             match l with
             | [] => []
             | (k, x') :: r =>
                 (enc_text k, compress (match dflt with Some (Dict dl) => dget text k dl | _ => None end) x') :: go r
             end) l)
  end.
Definition zres (dflt : dict text) (r : res (dict text)) : res zcfg :=
  match r with Ok d => Ok (compress (Some (Dict dflt)) (Dict d)) | Err e => Err e end.
Definition enc_paths (l : list path) := map (map enc_text) l.
'''


def dec_zcfg(o, dflt):
    if o[0] == "ZSame":
        return copy.deepcopy(dflt)
    if o[0] == "ZL":
        return dec_ot(o[1])
    items = o[1] if len(o) > 1 else []
    out = {}
    for k, v in items:
        kk = dec_ot(k)
        out[kk] = dec_zcfg(v, dflt.get(kk) if isinstance(dflt, dict) else None)
    return out


def dec_zres(r, dflt):
    if r[0] == "Ok":
        return ("ok", dec_zcfg(r[1], dflt))
    return ("err", r[1][0])


def real_defaults():
    from sqlfluff.core.helpers.dict import nested_combine
    from sqlfluff.core.plugin.host import get_plugin_manager
    return nested_combine(*get_plugin_manager().hook.load_default_config())


def scenario_term(sc, iter_queries):
    """(per-file results, iter_intermediate_paths answers, hypotheses of C27_precedence hold, every config file as loaded)"""
    q = "[" + "; ".join("(%s, %s)" % (cpath(a), cpath(b)) for a, b in iter_queries) + "]" if iter_queries else "(@nil (path * path))"
    return ("(let f := %s in let e := %s in let rt := %s in let files := %s in "
            "(map (zres defaults) (map (inline_config text idc isn f e rt) files), map (zres defaults) (run text idc isn f e rt files), "
            "map (fun po => enc_paths (iter_intermediate_paths text f (fst po) (snd po))) %s, "
            "fs_wfb text f && wfdb text (r_overrides text rt), "
            "map (fun nc => enc_res (load_file text idc (fst nc) (snd nc))) (List.concat (map snd f))))") % (
        sc.coq_fs(), sc.coq_env(), sc.coq_root(), sc.coq_files(), q)


# ------------------------------------------------------------------------------------------------------------------------
# running the real code on a scenario

def spell(root, cwd, p, rng):
    """how a path is spelled on the command line: relative to cwd when below it (sometimes absolute), absolute otherwise"""
    full = os.path.join(root, *p)
    cw = os.path.join(root, *cwd)
    if tuple(p[:len(cwd)]) == tuple(cwd) and rng.random() < 0.7:
        return os.path.relpath(full, cw)
    return full


def impl_kwargs(sc, root, rng):
    kw = {"ignore_local_config": sc.ignore_local}
    if sc.extra is not None:
        kw["extra_config_path"] = spell(root, sc.cwd, sc.extra, rng)
    if sc.overrides:
        kw["overrides"] = {k: dec(v) for k, v in sc.overrides.items()}
    return kw


def read_as_linter(path):
    """what load_raw_file_and_config reads (utf-8 / autodetect, universal newlines)"""
    with open(path, encoding="utf-8", errors="backslashreplace") as f:
        return f.read()


def impl_direct(sc, root, rng):
    """FluffConfig.from_path + process_raw_file_for_config for every sql file -> [("ok", tree) | ("err", kind, repr)]"""
    from sqlfluff.core import FluffConfig
    out = []
    for p, text in sc.sql:
        try:
            cfg = FluffConfig.from_path(spell(root, sc.cwd, p, rng), require_dialect=False, **impl_kwargs(sc, root, rng))
            cfg.process_raw_file_for_config(text, "/".join(p))
            out.append(("ok", norm_impl(cfg._configs), cfg))
        except Exception as e:  # noqa: BLE001 - every exception class is an outcome of the model
            out.append(("err", exc_kind(e), repr(e)[:300]))
    return out


class Capture:
    """wraps the static/class methods the runner goes through; records the config of every file at load and at lint time"""

    def __init__(self):
        self.events = []

    def __enter__(self):
        from sqlfluff.core import Linter
        self.Linter = Linter
        self.saved = {n: Linter.__dict__[n] for n in ("load_raw_file_and_config", "lint_rendered", "get_rulepack")}
        ev = self.events
        orig_load = self.saved["load_raw_file_and_config"].__func__
        orig_lr = self.saved["lint_rendered"].__func__
        orig_rp = self.saved["get_rulepack"]

        def load(fname, root_config):
            raw, cfg, encoding = orig_load(fname, root_config)
            ev.append(("load", os.path.abspath(fname), norm_impl(cfg._configs), raw))
            return raw, cfg, encoding

        def lint_rendered(cls, rendered, rule_pack, fix=False, formatter=None):
            ev.append(("lint", os.path.abspath(rendered.fname), norm_impl(rendered.config._configs), None))
            return orig_lr(cls, rendered, rule_pack, fix, formatter)

        def get_rulepack(slf, config=None):
            if config is not None:
                ev.append(("rulepack", None, norm_impl(config._configs), None))
            return orig_rp(slf, config)

        Linter.load_raw_file_and_config = staticmethod(load)
        Linter.lint_rendered = classmethod(lint_rendered)
        Linter.get_rulepack = get_rulepack
        return self

    def __exit__(self, *a):
        for n, v in self.saved.items():
            setattr(self.Linter, n, v)


def viol_sig(linted_file):
    return sorted((v.rule_code(), v.line_no, v.line_pos, v.desc()[:60]) for v in linted_file.violations)


# ------------------------------------------------------------------------------------------------------------------------
# translator: the real defaults and the loader's file-name order, compiled once (fail closed)

GEN_FILE = os.path.join(coq.COQ, "generated", "Gen_c27_config.v")
GEN_IMPORT = "From SFGen Require Import Gen_c27_config."


def extract_filename_options():
    repo = os.environ.get("VERIF_REPO", "/repo")
    tree = ast.parse(open(os.path.join(repo, "src/sqlfluff/core/config/loader.py")).read())
    for node in ast.walk(tree):
        if isinstance(node, ast.FunctionDef) and node.name == "load_config_at_path":
            for st in ast.walk(node):
                if isinstance(st, (ast.Assign, ast.AnnAssign)):
                    tgt = st.targets[0] if isinstance(st, ast.Assign) else st.target
                    if isinstance(tgt, ast.Name) and tgt.id == "filename_options":
                        return [ast.literal_eval(e) for e in st.value.elts]
    raise RuntimeError("filename_options not found in load_config_at_path")


def generate(ctx):
    opts = extract_filename_options()
    dtexts = enc_tree(real_defaults())
    src = ("(* generated by harness/props/c27.py from /repo -- do not edit *)\n"
           "From SF Require Import Base.Prelude Model.Config.\n" + COQ_DEFS + COQ_DEFS2 +
           "Definition defaults : dict text := %s.\n" % cdict(dtexts) +
           "Definition gen_filename_options : list text := %s.\n" % ("[" + "; ".join(ctext(o) for o in opts) + "]") +
           "(* the order in loader.load_config_at_path is the order the model (and C27_precedence) uses *)\n"
           "Lemma gen_filename_options_eq : gen_filename_options = filename_options.\nProof. vm_compute. reflexivity. Qed.\n"
           "Lemma gen_defaults_wf : wfdb text defaults = true.\nProof. vm_compute. reflexivity. Qed.\n")
    coq.write_if_changed(GEN_FILE, src)


GENERATORS = [generate]
COQ_TARGETS = ["generated/Gen_c27_config.vo", "theories/Properties/C27.vo"]


class Batch:
    """collects Coq terms, evaluates them in at most `jobs` coqc runs, hands the parsed values back by index"""

    def __init__(self):
        self.terms = []
        self.vals = None

    def add(self, term):
        self.terms.append(term)
        return len(self.terms) - 1

    def run(self, jobs=4):
        from concurrent.futures import ThreadPoolExecutor
        n = len(self.terms)
        if not n:
            self.vals = []
            return
        # spread by size so that the chunks take about the same time
        order = sorted(range(n), key=lambda i: -len(self.terms[i]))
        chunks = [[] for _ in range(min(jobs, n))]
        sizes = [0] * len(chunks)
        for i in order:
            j = sizes.index(min(sizes))
            chunks[j].append(i)
            sizes[j] += len(self.terms[i]) + 2000
        def one(idx):
            return coq.eval_terms(["Model.Config", GEN_IMPORT], [self.terms[i] for i in idx], defs="From Coq Require Import String Ascii.\n", timeout=1500)
        with ThreadPoolExecutor(max_workers=len(chunks)) as ex:
            parts = list(ex.map(one, chunks))
        self.vals = [None] * n
        for idx, vs in zip(chunks, parts):
            for i, v in zip(idx, vs):
                self.vals[i] = v

    def __getitem__(self, i):
        return self.vals[i]


# ------------------------------------------------------------------------------------------------------------------------
# small-scope units

def small_dicts():
    """64 dicts over keys a, b (depth <= 2, leaves "1"/"2") plus 16 with the keys in the other order"""
    opts = [None, "1", "2", {}, {"a": "1"}, {"a": "2"}, {"b": "1"}, {"a": {}}]
    out = []
    for oa in opts:
        for ob in opts:
            d = {}
            if oa is not None:
                d["a"] = copy.deepcopy(oa)
            if ob is not None:
                d["b"] = copy.deepcopy(ob)
            out.append(d)
    for oa, ob in [(1, 3), (3, 1), (4, 6), (6, 4), (7, 2), (2, 7), (4, 4), (5, 4), (3, 3), (1, 2), (6, 6), (7, 7), (4, 1), (1, 4), (5, 6), (6, 5)]:
        out.append({"b": copy.deepcopy(opts[ob]), "a": copy.deepcopy(opts[oa])})
    return out


def py_tree(d):
    return {k: (py_tree(v) if isinstance(v, dict) else dec(v)) for k, v in d.items()}


def kinds(d, prefix=()):
    """every path of a nested dict -> 'section' or ('value', v)"""
    out = {}
    for k, v in d.items():
        if isinstance(v, dict):
            out[prefix + (k,)] = "section"
            out.update(kinds(v, prefix + (k,)))
        else:
            out[prefix + (k,)] = ("value", v)
    return out


def try_call(f, *a):
    try:
        return ("ok", f(*a))
    except Exception as e:  # noqa: BLE001
        return ("err", exc_kind(e))


def same_outcome(model, impl, convert=lambda t: t, ordered=True):
    """model: ("ok", text tree)|("err", kind); impl: ("ok", py tree)|("err", kind)"""
    if model[0] != impl[0]:
        return False
    if model[0] == "err":
        return model[1] == impl[1]
    return tree_eq(convert(model[1]), impl[1], ordered)


ALPHA = ["a", ":", " ", "\\", "[", "]", "{", "}", "C"]
ALPHA_LINES = ["a", "\n", "\r", "\x0b", "\x85", " "]
ALPHA_STRIP = ["a", " ", "\t", "\xa0", "　"]


def all_strings(alpha, n):
    """same order as the Coq enumeration: strings of length exactly n"""
    cur = [""]
    for _ in range(n):
        cur = [c + s for s in cur for c in alpha]
    return cur


COQ_ENUM = ("(fix go (n : nat) : list text := match n with O => [[]] | S m => "
            "flat_map (fun s => map (fun c => c :: s) %s) (go m) end)")


def calpha(alpha):
    return "[" + ";".join(str(ord(c)) for c in alpha) + "]%N"


def units_prepare(ctx, B):
    """adds the Coq terms of the small-scope units to the batch; returns a closure that compares after B.run()"""
    from sqlfluff.core import FluffConfig
    from sqlfluff.core.helpers.dict import iter_records_from_nested_dict, nested_combine, records_to_nested_dict
    from sqlfluff.core.helpers.string import split_colon_separated_string
    quick = ctx.tier == "quick"
    rng = ctx.rng
    ds = small_dicts()
    pds = [py_tree(d) for d in ds]
    n = len(ds)
    dsl = "[" + "; ".join(cdict(d) for d in ds) + "]"
    h = {}
    h["pairs"] = B.add("(let ds := %s in map (fun x => map (fun y => enc_res (nested_combine text [x; y])) ds) ds)" % dsl)
    ntr = 400 if quick else 6000
    tuples = [tuple(rng.randrange(n) for _ in range(rng.choice([3, 3, 4]))) for _ in range(ntr)]
    h["tuples"] = []
    for chunk in coq.chunked(tuples, 150):
        lit = "[" + "; ".join("[" + ";".join(str(i) for i in t) + "]" for t in chunk) + "]"
        h["tuples"].append(B.add("(let ds := %s in map (fun t => enc_res (nested_combine text (map (fun i => nth i ds []) t))) %s)" % (dsl, lit)))
    paths = [p for k in (2, 3) for p in itertools.product("ab", repeat=k)]
    pl = "[" + "; ".join(cpath(p) for p in paths) + "]"
    h["setv"] = B.add('(let ds := %s in map (fun d => map (fun p => enc_res (set_value text p (lit "9") d)) %s) ds)' % (dsl, pl))
    h["iter"] = B.add("(map (fun d => enc_recs (iter_records text d)) %s)" % dsl)
    nrec = 300 if quick else 3000
    recsets = []
    for _ in range(nrec):
        recsets.append([(tuple(rng.choice("ab") for _ in range(rng.choice([0, 1, 1, 2, 2, 3]))), rng.choice("12")) for _ in range(rng.choice([1, 2, 3, 4]))])
    h["recs"] = []
    for chunk in coq.chunked(recsets, 150):
        lit = "[" + "; ".join("[" + "; ".join("(%s, %s)" % (cpath(k), ctext(v)) for k, v in rs) + "]" for rs in chunk) + "]"
        h["recs"].append(B.add("(map (fun rs => enc_res (records_to_nested_dict text rs)) %s)" % lit))
    maxlen = 4 if quick else 5
    h["split"] = [B.add("(map (fun s => match split_colon_separated_string s with Some (ks, v) => Some (map enc_text ks, enc_text v) | None => None end) (%s %d))"
                        % (COQ_ENUM % calpha(ALPHA), k)) for k in range(maxlen + 1)]
    h["lines"] = [B.add("(map (fun s => map enc_text (splitlines s)) (%s %d))" % (COQ_ENUM % calpha(ALPHA_LINES), k)) for k in range(5 if quick else 6)]
    h["strip"] = [B.add("(map (fun s => enc_text (strip s)) (%s %d))" % (COQ_ENUM % calpha(ALPHA_STRIP), k)) for k in range(5)]
    h["space"] = B.add("(filter (fun c => is_space (N.of_nat c)) (seq 0 12600), filter (fun c => is_linebreak (N.of_nat c)) (seq 0 12600))")
    # inline scanner on a fixed base config
    base = {"core": {"dialect": "ansi", "max_line_length": "80", "rules": "all", "exclude_rules": "None", "ignore": "None", "warnings": "None",
                     "verbose": "0", "use_rust_parser": "auto", "use_rust_rules": "False"},
            "indentation": {"tab_space_size": "4"}, "rules": {"capitalisation.keywords": {"capitalisation_policy": "consistent"}},
            "templater": {"jinja": {"context": {}}}, "xsec": {"ya": "1", "yd": {"ze": "2"}}}
    raws = []
    for line in INLINE_MALFORMED:
        raws.append(line + "\n")
    for k, vals in INLINE_GOOD:
        for v in vals:
            raws.append("-- sqlfluff:%s:%s\nselect 1\n" % (k, v))
            raws.append("select 1;\n--sqlfluff:%s : %s  \n" % (k, v))
    for _ in range(60 if quick else 1200):
        sep = rng.choice(LINESEPS)
        raws.append("".join(l + sep for l in gen_inline(rng, True)) + rng.choice(["", "select 1", "select 1\n"]))
    h["inline"] = []
    for chunk in coq.chunked(raws, 100):
        lit = "[" + "; ".join(ctext(r) for r in chunk) + "]"
        h["inline"].append(B.add("(let base := %s in map (fun raw => enc_res (process_raw_file_for_config text idc base raw)) %s)" % (cdict(base), lit)))
    h["fnopts"] = B.add("(map enc_text filename_options)")

    def compare():
        def bad(what, detail):
            ctx.broken_obligation("correspondence %s" % what, detail)
        # -- nested_combine: all pairs
        okp = True
        for i, row in enumerate(B[h["pairs"]]):
            for j, r in enumerate(row):
                impl = try_call(nested_combine, pds[i], pds[j])
                m = dec_res(r)
                nt = impl[0] == "err" or any(isinstance(v, dict) for v in impl[1].values())
                ctx.case(("nc2", i, j) if nt else None, bucket="nested_combine-pair")
                if okp and not same_outcome(m, impl, py_tree):
                    okp = False
                    bad("Model.Config.nested_combine vs helpers.dict.nested_combine", {"input": [pds[i], pds[j]], "model": m, "impl": impl})
                # monitor on the real function: rightmost wins (the section/value observation of the last dict that has the path)
                if impl[0] == "ok":
                    ka, kb, kr = kinds(pds[i]), kinds(pds[j]), kinds(impl[1])
                    for p in set(ka) | set(kb) | set(kr):
                        want = kb.get(p, ka.get(p))
                        if kr.get(p) != want:
                            ctx.violation("combine-rightmost", "nested_combine: a path does not show the last dict that defines it",
                                          {"input": [pds[i], pds[j]], "path": list(p), "got": repr(kr.get(p)), "want": repr(want)})
        ctx.coverage_extra["nested_combine_pairs_exhaustive"] = n * n
        # -- tuples; staged == flat whenever flat succeeds (combine_assoc on the real function)
        flat_results = []
        for hh in h["tuples"]:
            flat_results += B[hh]
        okt = True
        for t, r in zip(tuples, flat_results):
            args = [pds[i] for i in t]
            impl = try_call(nested_combine, *args)
            ctx.case(("nc", t), bucket="nested_combine-%d" % len(t))
            if okt and not same_outcome(dec_res(r), impl, py_tree):
                okt = False
                bad("Model.Config.nested_combine vs helpers.dict.nested_combine", {"input": args, "model": dec_res(r), "impl": impl})
            if impl[0] == "ok":
                for cut in range(1, len(args)):
                    for end in range(cut + 1, len(args) + 1):
                        mid = try_call(nested_combine, *args[cut:end])
                        staged = try_call(nested_combine, *(args[:cut] + [mid[1]] + args[end:])) if mid[0] == "ok" else mid
                        if staged[0] != "ok" or not tree_eq(staged[1], impl[1], True):
                            ctx.violation("combine-assoc", "staged nested_combine differs from the flat combination although the flat one succeeds",
                                          {"input": args, "stage": [cut, end], "flat": impl, "staged": staged})
        # -- set_value
        cfg = FluffConfig(overrides={"dialect": "ansi"})
        oks = True
        for i, row in enumerate(B[h["setv"]]):
            for p, r in zip(paths, row):
                cfg._configs = copy.deepcopy(pds[i])
                def call():
                    cfg.set_value(list(p), "9")
                    return cfg._configs
                impl = try_call(call)
                ctx.case(("sv", i, p) if impl[0] == "err" or len(p) == 3 else None, bucket="set_value")
                if oks and not same_outcome(dec_res(r), impl, py_tree):
                    oks = False
                    bad("Model.Config.set_value vs FluffConfig.set_value", {"input": {"dict": pds[i], "path": list(p)}, "model": dec_res(r), "impl": impl})
        # -- iter_records / records_to_nested_dict
        for i, r in enumerate(B[h["iter"]]):
            impl = [(tuple(k), v) for k, v in iter_records_from_nested_dict(pds[i])]
            m = [(tuple(dec_ot(x) for x in (ks if isinstance(ks, list) else [])), dec(dec_ot(v))) for ks, v in r]
            ctx.case(None, bucket="iter_records")
            if m != impl:
                bad("Model.Config.iter_records vs iter_records_from_nested_dict", {"input": pds[i], "model": m, "impl": impl})
                break
        rr = []
        for hh in h["recs"]:
            rr += B[hh]
        for rs, r in zip(recsets, rr):
            impl = try_call(records_to_nested_dict, [(k, dec(v)) for k, v in rs])
            ctx.case(("rec", repr(rs)) if impl[0] == "err" or len(rs) > 2 else None, bucket="records_to_nested_dict")
            if not same_outcome(dec_res(r), impl, py_tree):
                bad("Model.Config.records_to_nested_dict vs helpers.dict.records_to_nested_dict", {"input": rs, "model": dec_res(r), "impl": impl})
                break
        # -- strings
        done = False
        for k, hh in enumerate(h["split"]):
            for s, r in zip(all_strings(ALPHA, k), B[hh]):
                impl = split_colon_separated_string(s)
                m = None if r is None else (tuple(dec_ot(x) for x in r[1][0]), dec_ot(r[1][1]))
                ctx.case(("split", s) if ":" in s else None, bucket="split_colon")
                if not done and m != impl:
                    done = True
                    bad("Model.Config.split_colon_separated_string vs helpers.string.split_colon_separated_string", {"input": s, "model": m, "impl": impl})
        ctx.coverage_extra["split_colon_exhaustive_len"] = maxlen
        done = False
        for k, hh in enumerate(h["lines"]):
            for s, r in zip(all_strings(ALPHA_LINES, k), B[hh]):
                ctx.case(None, bucket="splitlines")
                if not done and [dec_ot(x) for x in r] != s.splitlines():
                    done = True
                    bad("Model.Config.splitlines vs str.splitlines", {"input": s, "model": [dec_ot(x) for x in r], "impl": s.splitlines()})
        done = False
        for k, hh in enumerate(h["strip"]):
            for s, r in zip(all_strings(ALPHA_STRIP, k), B[hh]):
                ctx.case(None, bucket="strip")
                if not done and dec_ot(r) != s.strip():
                    done = True
                    bad("Model.Config.strip vs str.strip", {"input": s, "model": dec_ot(r), "impl": s.strip()})
        sp, lb = B[h["space"]]
        py_sp = [c for c in range(0x110000) if chr(c).isspace()]
        py_lb = [c for c in range(0x110000) if not (0xD800 <= c < 0xE000) and len(("a" + chr(c) + "b").splitlines()) == 2]
        ctx.case("isspace-table", bucket="tables")
        if list(sp) != py_sp:
            bad("Model.Config.is_space vs str.isspace", {"model": list(sp), "impl": py_sp})
        if list(lb) != py_lb:
            bad("Model.Config.is_linebreak vs str.splitlines", {"model": list(lb), "impl": py_lb})
        # -- inline scanner
        ri = []
        for hh in h["inline"]:
            ri += B[hh]
        pbase = py_tree(base)
        done = False
        for raw, r in zip(raws, ri):
            cfg._configs = copy.deepcopy(pbase)
            def call():
                cfg.process_raw_file_for_config(raw, "unit.sql")
                return norm_impl(cfg._configs)
            impl = try_call(call)
            m = dec_res(r)
            nt = impl[0] == "err" or (impl[0] == "ok" and not tree_eq(impl[1], model_to_py(base), True))
            ctx.case(("inl", raw) if nt else None, bucket="inline-unit", sample={"raw": raw, "impl": impl[0]} if nt and len(raw) % 17 == 0 else None)
            if not done and not same_outcome(m, impl, model_to_py):
                done = True
                bad("Model.Config.process_raw_file_for_config vs FluffConfig.process_raw_file_for_config",
                    {"input": raw, "model": m if m[0] == "err" else first_diff(model_to_py(m[1]), impl[1]) if impl[0] == "ok" else "ok", "impl": impl[0:2] if impl[0] == "err" else "ok"})
        # -- the file-name order (also a build obligation: gen_filename_options_eq)
        fo = [dec_ot(x) for x in B[h["fnopts"]]]
        ctx.case("filename_options", bucket="tables")
        if fo != extract_filename_options():
            bad("Model.Config.filename_options vs loader.load_config_at_path.filename_options", {"model": fo, "impl": extract_filename_options()})
    return compare


# ------------------------------------------------------------------------------------------------------------------------
# monitor 1: the precedence ladder, winner predicted by an oracle written from the property text (no Coq involved)

LADDER = [  # (layer name, directory (relative to the tree), file name or None) lowest precedence first
    ("user-appdir", ("xdg", "sqlfluff"), ".sqlfluff"),
    ("home", ("home",), ".sqlfluff"),
    ("between-home-and-cwd", ("home", "w"), ".sqlfluff"),
    ("cwd/setup.cfg", ("home", "w", "proj"), "setup.cfg"),
    ("cwd/.sqlfluff", ("home", "w", "proj"), ".sqlfluff"),
    ("cwd/pyproject.toml", ("home", "w", "proj"), "pyproject.toml"),
    ("subdir", ("home", "w", "proj", "a"), ".sqlfluff"),
    ("filedir/tox.ini", ("home", "w", "proj", "a", "b"), "tox.ini"),
    ("filedir/pyproject.toml", ("home", "w", "proj", "a", "b"), "pyproject.toml"),
    ("extra-config", ("cfg",), "extra.cfg"),
    ("cli-override", None, None),
    ("inline", None, None),
]
LADDER_APPLIES_TO_SIBLING = [True, True, True, True, True, True, False, False, False, True, True, False]


def ladder(ctx, root):
    from sqlfluff.core import FluffConfig, Linter
    rng = ctx.rng
    nl = len(LADDER)
    for _n, d, _f in LADDER:
        if d is not None:
            os.makedirs(os.path.join(root, *d), exist_ok=True)
    os.makedirs(os.path.join(root, "home", "w", "proj", "c"), exist_ok=True)
    fpath = os.path.join(root, "home", "w", "proj", "a", "b", "f.sql")
    gpath = os.path.join(root, "home", "w", "proj", "c", "g.sql")
    subsets = [(1 << i, 1 << ((i + 5) % nl)) for i in range(nl)]
    subsets += [(((1 << nl) - 1) & ~(1 << i), ((1 << nl) - 1)) for i in range(nl)] + [(0, 0), ((1 << nl) - 1, 0)]
    if ctx.tier == "quick":
        subsets += [(rng.randrange(1 << nl), rng.randrange(1 << nl)) for _ in range(100)]
    else:
        subsets += [(s, rng.randrange(1 << nl)) for s in range(1 << nl)]
    keys = [("core", "max_line_length", 100), ("indentation", "tab_space_size", 20)]   # value of layer i = base + i
    defaults = {"max_line_length": 80, "tab_space_size": 4}
    with Redirect(os.path.join(root, "home"), os.path.join(root, "xdg"), os.path.join(root, "home", "w", "proj")):
        for s1, s2 in subsets:
            present = [s1, s2]
            for i, (_n, d, fname) in enumerate(LADDER):
                if d is None:
                    continue
                path = os.path.join(root, *d, fname)
                secs = {}
                for (sec, opt, base), s in zip(keys, present):
                    if s >> i & 1:
                        secs.setdefault(sec, []).append((opt, base + i))
                if os.path.exists(path):
                    os.remove(path)
                if secs:
                    with open(path, "w") as f:
                        if fname == "pyproject.toml":
                            for sec, items in secs.items():
                                f.write("[tool.sqlfluff.%s]\n" % sec + "".join("%s = %d\n" % kv for kv in items))
                        else:
                            for sec, items in secs.items():
                                f.write("[sqlfluff%s]\n" % ("" if sec == "core" else ":" + sec) + "".join("%s = %d\n" % kv for kv in items))
            inl = "".join("-- sqlfluff:%s%s:%d\n" % ("" if sec == "core" else sec + ":", opt, base + nl - 1)
                          for (sec, opt, base), s in zip(keys, present) if s >> (nl - 1) & 1)
            with open(fpath, "w") as f:
                f.write(inl + "select 1\n")
            with open(gpath, "w") as f:
                f.write("select 2\n")
            ov = {"dialect": "ansi"}
            if s1 >> (nl - 2) & 1:
                ov["max_line_length"] = keys[0][2] + nl - 2
            # overrides only reach `core`: tab_space_size has no override layer
            has_extra = any(s >> 9 & 1 for s in present)
            kw = {"overrides": ov}
            if has_extra:
                kw["extra_config_path"] = os.path.join(root, "cfg", "extra.cfg")
            clear_caches()
            order = [("f", fpath), ("g", gpath)]
            if rng.random() < 0.5:
                order.reverse()
            got = {}
            root_cfg = FluffConfig.from_root(**kw)
            for who, pth in order:
                rel = os.path.relpath(pth) if rng.random() < 0.5 else pth
                _raw, cfg, _e = Linter.load_raw_file_and_config(rel, root_cfg)
                got[who] = (cfg.get("max_line_length"), cfg.get("tab_space_size", section="indentation"))
            for who, applies in (("f", [True] * nl), ("g", LADDER_APPLIES_TO_SIBLING)):
                want = []
                for (sec, opt, base), s in zip(keys, present):
                    live = [i for i in range(nl) if s >> i & 1 and applies[i] and not (opt == "tab_space_size" and i == nl - 2)]
                    want.append(base + max(live) if live else defaults[opt])
                ctx.case(("ladder", s1, s2, who), bucket="ladder", sample={"layers_present(max_line_length)": [LADDER[i][0] for i in range(nl) if s1 >> i & 1],
                                                                             "file": who, "effective": got[who][0]} if (s1 + s2) % 97 == 0 else None)
                if tuple(want) != got[who]:
                    winner = [max([i for i in range(nl) if s >> i & 1 and applies[i]] or [-1]) for s in present]
                    leak = who == "g" and any(g in (base + i for i in range(nl) if not LADDER_APPLIES_TO_SIBLING[i]) for g, (_s, _o, base) in zip(got[who], keys))
                    ctx.violation("isolation-leak" if leak else "precedence-ladder",
                                  ("a setting of another file's nested/inline config reached this file" if leak else
                                   "the effective value does not come from the highest-precedence layer that sets it"),
                                  {"input": {"layers(max_line_length)": [LADDER[i][0] for i in range(nl) if s1 >> i & 1],
                                             "layers(tab_space_size)": [LADDER[i][0] for i in range(nl) if s2 >> i & 1], "file": who, "order": [w for w, _ in order]},
                                   "got": list(got[who]), "want": want},
                                  attrs={"file": who, "expected_winner": [LADDER[w][0] if w >= 0 else "defaults" for w in winner][0]})
    ctx.coverage_extra["ladder_subsets"] = len(subsets)


# ------------------------------------------------------------------------------------------------------------------------
# fixed scenarios (always run): the documented order, the refuted "staged = flat", section/value conflicts, odd layouts

def fixed_scenarios(rng):
    out = []

    def base(label):
        sc = Scenario()
        sc.label = label
        sc.mkdir(sc.home)
        sc.mkdir(sc.cwd)
        return sc
    S = lambda sec, opt, v: (tuple(sec.split(":")), opt, v)  # noqa: E731
    # every file name in one directory
    sc = base("all-filenames-one-dir")
    for i, fn in enumerate(FILENAMES):
        sc.add_file(rng, sc.cwd, fn, [S("core", "max_line_length", str(50 + 10 * i)), S("core", "dialect", "ansi")] + ([S("indentation", "tab_space_size", "2")] if i < 3 else []))
    sc.sql = [(sc.cwd + ("q.sql",), "select 1\n")]
    out.append(sc)
    # Properties/C27.v C27_staged_equals_flat_unconditionally_refuted, replayed: the stage (one directory) succeeds
    sc = base("stage-masks-conflict")
    sc.add_file(rng, sc.home, ".sqlfluff", [S("core", "dialect", "ansi"), S("xsec:ya", "zb", "1")])
    sc.add_file(rng, sc.cwd, "setup.cfg", [S("xsec", "ya", "5")])
    sc.add_file(rng, sc.cwd, ".sqlfluff", [S("xsec:ya", "zc", "2")])
    sc.sql = [(sc.cwd + ("q.sql",), "select 1\n")]
    out.append(sc)
    # the flat order raises where no stage hides it
    sc = base("value-over-section-raises")
    sc.add_file(rng, sc.home, ".sqlfluff", [S("core", "dialect", "ansi"), S("xsec:ya", "zb", "1")])
    sc.add_file(rng, sc.cwd, ".sqlfluff", [S("xsec", "ya", "5")])
    sc.sql = [(sc.cwd + ("q.sql",), "select 1\n"), (sc.home + ("r.sql",), "-- sqlfluff:xsec:ya:zb:wc:3\nselect 1\n"), (sc.home + ("s.sql",), "-- sqlfluff:xsec:ya:7\nselect 1\n")]
    out.append(sc)
    # section over value: overwrite
    sc = base("section-over-value-overwrites")
    sc.add_file(rng, sc.home, ".sqlfluff", [S("core", "dialect", "ansi"), S("xsec", "ya", "5")])
    sc.add_file(rng, sc.cwd, ".sqlfluff", [S("xsec:ya", "zb", "1")])
    sc.sql = [(sc.cwd + ("q.sql",), "select 1\n"), (sc.home + ("r.sql",), "-- sqlfluff:xsec:ya:zb:3\nselect 1\n")]
    out.append(sc)
    # nested + sibling + inline: the isolation picture
    sc = base("nested-sibling-inline")
    sc.add_file(rng, sc.cwd, ".sqlfluff", [S("core", "dialect", "ansi"), S("core", "max_line_length", "60"), S("core", "rules", "LT05,CP01")])
    sc.add_file(rng, sc.cwd + ("a",), ".sqlfluff", [S("core", "max_line_length", "100"), S("rules:capitalisation.keywords", "capitalisation_policy", "upper")])
    sc.add_file(rng, sc.cwd + ("c",), "pyproject.toml", [S("core", "max_line_length", "50"), S("rules:capitalisation.keywords", "capitalisation_policy", "lower")])
    sc.mkdir(sc.cwd + ("a", "b"))
    sc.sql = [(sc.cwd + ("a", "x.sql"), SQL_BODIES[1]), (sc.cwd + ("c", "y.sql"), SQL_BODIES[1]),
              (sc.cwd + ("z.sql",), "-- sqlfluff:max_line_length:70\n-- sqlfluff:rules:LT05\n" + SQL_BODIES[1]), (sc.cwd + ("w.sql",), SQL_BODIES[1]),
              (sc.cwd + ("a", "b", "v.sql"), "--sqlfluff:rules:capitalisation.keywords:capitalisation_policy:lower\n" + SQL_BODIES[3])]
    out.append(sc)
    # user config in ~/.config/sqlfluff wins over $XDG_CONFIG_HOME/sqlfluff; extra + overrides; ignore_local_config
    for ign in (False, True):
        sc = base("appdir-extra-overrides" + ("-ignore-local" if ign else ""))
        sc.xdg = ("xdg",)
        sc.add_file(rng, ("xdg", "sqlfluff"), ".sqlfluff", [S("core", "verbose", "2"), S("core", "max_line_length", "50")])
        sc.add_file(rng, sc.home + (".config", "sqlfluff"), ".sqlfluff", [S("core", "verbose", "1")])
        sc.add_file(rng, sc.home, ".sqlfluff", [S("core", "dialect", "postgres"), S("core", "max_line_length", "60")])
        sc.add_file(rng, sc.cwd, "tox.ini", [S("core", "max_line_length", "70")], with_foreign=True)
        sc.add_file(rng, ("cfg",), "my.toml", [S("core", "dialect", "ansi"), S("indentation", "tab_space_size", "8")])
        sc.extra = ("cfg", "my.toml")
        sc.overrides = {"exclude_rules": "LT01,LT02", "nocolor": "True"}
        sc.ignore_local = ign
        sc.sql = [(sc.cwd + ("q.sql",), "select 1\n")]
        out.append(sc)
    # a dialect that only the file's inline directive sets
    sc = base("inline-only-dialect")
    sc.add_file(rng, sc.cwd, ".sqlfluff", [S("core", "max_line_length", "60")])
    sc.sql = [(sc.cwd + ("q.sql",), "-- sqlfluff:dialect:ansi\nselect 1\n"), (sc.cwd + ("r.sql",), "select 1\n")]
    out.append(sc)
    # ... and a whole run of such files (goes through Linter.lint_paths in several orders and through the CLI)
    sc = base("inline-only-dialect-run")
    sc.add_file(rng, sc.cwd, ".sqlfluff", [S("core", "max_line_length", "60")])
    sc.mkdir(sc.cwd + ("a",))
    sc.sql = [(sc.cwd + ("q.sql",), "-- sqlfluff:dialect:ansi\nselect 1\n"), (sc.cwd + ("a", "r.sql"), "--sqlfluff:dialect:postgres\n" + SQL_BODIES[1]),
              (sc.cwd + ("s.sql",), "select 0;\n-- sqlfluff:dialect:ansi\n" + SQL_BODIES[3])]
    out.append(sc)
    # file outside the working directory; working directory outside home
    sc = base("file-outside-cwd")
    sc.cwd = ("srv", "proj", "app")
    sc.mkdir(sc.cwd)
    sc.add_file(rng, (), ".sqlfluff", [S("core", "verbose", "2")])
    sc.add_file(rng, ("srv",), ".sqlfluff", [S("core", "dialect", "ansi"), S("core", "max_line_length", "50")])
    sc.add_file(rng, ("srv", "proj"), ".sqlfluff", [S("core", "max_line_length", "60")])
    sc.add_file(rng, sc.cwd, ".sqlfluff", [S("core", "max_line_length", "70")])
    sc.add_file(rng, ("srv", "proj", "lib"), ".sqlfluff", [S("indentation", "tab_space_size", "2")])
    sc.add_file(rng, ("other",), ".sqlfluff", [S("core", "dialect", "tsql")])
    sc.sql = [(("srv", "proj", "lib", "q.sql"), "select 1\n"), (sc.cwd + ("r.sql",), "select 1\n"), (("other", "s.sql"), "select 1\n")]
    out.append(sc)
    return out


def covers_two_layers(sc, p):
    """non-triviality: some (section, option) is set by >= 2 config files on the chain of this sql file (or by a file and inline)"""
    d = p[:-1]
    seen = {}
    for dd, files in sc.dirs.items():
        if dd == d[:len(dd)] or dd[:1] in (("xdg",), ("cfg",)) or ".config" in dd:
            for fname, (kind, text, _v) in files.items():
                for line in text.splitlines():
                    if "=" in line and not line.startswith("["):
                        k = line.split("=")[0].strip()
                        seen[k] = seen.get(k, 0) + 1
    return any(v >= 2 for v in seen.values())


def run(ctx, coq_ok):
    import logging
    logging.getLogger("sqlfluff").setLevel(logging.CRITICAL)
    base_tmp = tempfile.mkdtemp(prefix="verif-c27-", dir=os.environ.get("TMPDIR") or "/var/tmp")
    try:
        _run(ctx, coq_ok, base_tmp)
    finally:
        shutil.rmtree(base_tmp, ignore_errors=True)


def _run(ctx, coq_ok, base_tmp):
    import threading
    from sqlfluff.core import FluffConfig, Linter
    from sqlfluff.core.config.ini import load_ini_string
    from sqlfluff.core.config.toml import load_toml_file_config
    from sqlfluff.core.helpers.file import iter_intermediate_paths
    from pathlib import Path
    quick = ctx.tier == "quick"
    rng = ctx.rng
    dflt_texts = enc_tree(real_defaults())

    # ---- scenarios: generate, write, build the Coq terms
    scs = fixed_scenarios(rng)
    n_rand = 32 if quick else 800
    for i in range(n_rand):
        scs.append(gen_scenario(rng, malformed=(i % 4 == 3), conflicts=(i % 3 != 0)))
    B = Batch()
    compare_units = units_prepare(ctx, B) if coq_ok else None
    infos = []
    for si, sc in enumerate(scs):
        root = os.path.join(base_tmp, "s%d" % si)
        sc.write(root)
        # the texts the linter reads (universal newlines) are model inputs too
        as_read = [read_as_linter(os.path.join(root, *p)) for p, _t in sc.sql]
        mfiles = list(sc.sql) + [(p, ar) for (p, t), ar in zip(sc.sql, as_read) if ar != t]
        queries = [(p, o) for p, _t in sc.sql for o in (sc.home, sc.cwd)]
        cfgfiles = [(d, fname) for d, files in sc.dirs.items() for fname in files]
        info = {"root": root, "as_read": as_read, "mfiles": mfiles, "queries": queries, "cfgfiles": cfgfiles}
        if coq_ok:
            sc2 = copy.copy(sc)
            sc2.sql = mfiles
            info["h"] = B.add(scenario_term(sc2, queries))
        infos.append(info)
    coq_thread = None
    coq_err = []
    if coq_ok:
        def go():
            t0 = coq.now()
            try:
                B.run(jobs=3)
            except Exception as e:  # noqa: BLE001
                coq_err.append(e)
            ctx.coverage_extra["t_coq_eval_s"] = round(coq.now() - t0, 1)
        coq_thread = threading.Thread(target=go)
        coq_thread.start()

    try:
        # ---- the implementation on every scenario
        t_impl0 = coq.now()
        n_hist = 0
        max_hist = 5 if quick else 60
        for si, (sc, info) in enumerate(zip(scs, infos)):
            root = info["root"]
            with Redirect(os.path.join(root, *sc.home), None if sc.xdg is None else os.path.join(root, *sc.xdg), os.path.join(root, *sc.cwd)):
                clear_caches()
                info["direct"] = impl_direct(sc, root, rng)
                # the derived keys follow the effective raw values (they are recomputed after the inline directives)
                for (p, _t), d0 in zip(sc.sql, info["direct"]):
                    if d0[0] != "ok":
                        continue
                    c = d0[2]
                    core = c._configs["core"]
                    want = {"rule_allowlist": split_csv(core.get("rules")) if isinstance(core.get("rules"), (str, list, type(None))) else None,
                            "rule_denylist": split_csv(core.get("exclude_rules")) if isinstance(core.get("exclude_rules"), (str, list, type(None))) else None,
                            "color": False if core.get("nocolor") is True else True if core.get("nocolor") is False else None}
                    got = {k: core.get(k) for k in want}
                    if core.get("dialect") is not None and isinstance(core.get("dialect"), str):
                        want["dialect_obj"] = core.get("dialect")
                        got["dialect_obj"] = getattr(core.get("dialect_obj"), "name", None)
                    ctx.case(None, bucket="derived-keys")
                    bad_keys = [k for k in want if want[k] is not None or k == "color" if want[k] != got[k]]
                    # color is computed once in __init__ (before the inline directives): only checked when no inline nocolor
                    if bad_keys:
                        ctx.violation("derived-key-stale", "a derived core key does not follow the effective setting it is computed from",
                                      {"input": sc.describe(), "file": "/".join(p), "want": {k: want[k] for k in bad_keys}, "got": {k: got[k] for k in bad_keys}},
                                      attrs={"keys": ",".join(sorted(bad_keys))})
                # isolation by refinement, no model involved: every file again, alone, with cold caches
                for i, (p, _t) in enumerate(sc.sql):
                    one = copy.copy(sc)
                    one.sql = [sc.sql[i]]
                    clear_caches()
                    alone = impl_direct(one, root, rng)[0]
                    seq = info["direct"][i]
                    ctx.case(None, bucket="alone-vs-sequence-config")
                    if alone[0] != seq[0] or (alone[0] == "err" and alone[1] != seq[1]) or (alone[0] == "ok" and not tree_eq(alone[1], seq[1], True)):
                        ctx.violation("config-depends-on-sequence", "a file's effective config differs between loading it alone (cold caches) and after other files of the run",
                                      {"input": sc.describe(), "file": "/".join(p), "position_in_sequence": i,
                                       "difference": first_diff(alone[1], seq[1]) if alone[0] == seq[0] == "ok" else {"alone": alone[:2] if alone[0] == "err" else "ok", "in_sequence": seq[:2] if seq[0] == "err" else "ok"}},
                                      attrs={"kind": "value" if alone[0] == seq[0] == "ok" else "error"})
                clear_caches()
                info["iters"] = []
                for p, o in info["queries"]:
                    got = [os.path.relpath(str(x), root) for x in iter_intermediate_paths(Path(spell(root, sc.cwd, p, rng)), Path(os.path.join(root, *o)))]
                    info["iters"].append([tuple(x.split(os.sep)) if x != "." else () for x in got])
                info["loaded"] = []
                for d, fname in info["cfgfiles"]:
                    kind, text, _v = sc.dirs[d][fname]
                    if fname == "pyproject.toml":
                        info["loaded"].append(try_call(load_toml_file_config, os.path.join(root, *d, fname)))
                    else:
                        info["loaded"].append(try_call(load_ini_string, text))
                # through the linter's own loader, warm caches, as-read text
                info["via_linter"] = None
                kw = impl_kwargs(sc, root, rng)
                try:
                    root_cfg = FluffConfig.from_root(require_dialect=False, **kw)
                except Exception as e:  # noqa: BLE001
                    root_cfg = None
                    info["root_err"] = exc_kind(e)
                if root_cfg is not None:
                    vl = []
                    for p, _t in sc.sql:
                        def call(p=p):
                            _raw, cfg, _enc = Linter.load_raw_file_and_config(spell(root, sc.cwd, p, rng), root_cfg)
                            return norm_impl(cfg._configs)
                        try:
                            r = ("ok", call())
                        except Exception as e:  # noqa: BLE001
                            # "No dialect was specified": load_raw_file_and_config's verify_dialect_specified (after the inline scan)
                            r = ("nodialect",) if type(e).__name__ == "SQLFluffUserError" and "No dialect was specified" in str(e) else ("err", exc_kind(e))
                        vl.append(r)
                    info["via_linter"] = vl
                # histories
                eligible = (root_cfg is not None and not sc.decoys
                            and all(r[0] == "ok" for r in (info["via_linter"] or [("no",)]))
                            # discovery parses every config file between the working directory and the file for ignore_paths
                            # (also under ignore_local_config): a file that does not load is outside this property
                            and all(r[0] == "ok" for r in info["loaded"])
                            and all(d0[0] == "ok" and d0[2].get("dialect") is not None for d0 in info["direct"])
                            and all(ar == t for (p, t), ar in zip(sc.sql, info["as_read"])))
                if eligible and n_hist < max_hist:
                    n_hist += 1
                    th = coq.now()
                    info["history"] = history(ctx, sc, root, kw, rng)
                    ctx.coverage_extra["t_histories_s"] = round(ctx.coverage_extra.get("t_histories_s", 0) + coq.now() - th, 1)
        ctx.coverage_extra["histories"] = n_hist
        ctx.coverage_extra["t_impl_scenarios_s"] = round(coq.now() - t_impl0, 1)
        # ---- monitors that need no Coq
        t1 = coq.now()
        ladder(ctx, os.path.join(base_tmp, "ladder"))
        ctx.coverage_extra["t_ladder_s"] = round(coq.now() - t1, 1)
        string_monitor(ctx)
    finally:
        if coq_thread is not None:
            coq_thread.join()
    if not coq_ok:
        return
    if coq_err:
        raise coq_err[0]

    # ---- compare with the model
    compare_units()
    reported = set()

    def bad(what, detail):
        if what not in reported:
            reported.add(what)
            ctx.broken_obligation("correspondence %s" % what, detail)
    hyp_ok = 0
    for sc, info in zip(scs, infos):
        directs, runs, iters, wf, loaded = B[info["h"]]
        hyp_ok += 1 if wf else 0
        mres = [dec_zres(r, dflt_texts) for r in directs]
        by_text = {(p, t): m for (p, t), m in zip(info["mfiles"], [dec_zres(r, dflt_texts) for r in runs])}
        by_text_nodialect_req = {(p, t): m for (p, t), m in zip(info["mfiles"], mres)}
        for (p, t), m, d0 in zip(sc.sql, mres, info["direct"]):
            nt = m[0] == "err" or covers_two_layers(sc, p)
            ctx.case((sc.label, repr(sc.describe()["files"]), p) if nt else None, bucket="scenario-file:" + (m[0] if m[0] == "err" else "ok"),
                     sample={"scenario": sc.label, "file": "/".join(p), "model": m[0], "impl": d0[0]} if nt and len(ctx.samples) < 5 and m[0] == "ok" and sc.label not in [s.get("scenario") for s in ctx.samples if isinstance(s, dict)] else None)
            if not same_outcome(m, d0[:2], model_to_py):
                bad("Model.Config.file_config vs FluffConfig.from_path + process_raw_file_for_config",
                    {"input": sc.describe(), "file": "/".join(p),
                     "difference": first_diff(model_to_py(m[1]), d0[1]) if m[0] == "ok" and d0[0] == "ok" else {"model": m[:2] if m[0] == "err" else "ok", "impl": d0[0:3:2] if d0[0] == "err" else "ok"}})
        if info["via_linter"] is not None:
            for (p, t), ar, r in zip(sc.sql, info["as_read"], info["via_linter"]):
                m = by_text[(p, ar)]
                ctx.case(None, bucket="scenario-file-via-linter")
                if r[0] == "nodialect":
                    # "No dialect was specified" is right exactly when the file's EFFECTIVE config (inline directives included) has
                    # no dialect (C27_dialect_required_after_inline).  Pinned regression of the defect repaired in /repo 692586f:
                    # the dialect used to be demanded before the file's own directives were read.
                    m0 = by_text_nodialect_req[(p, ar)]
                    eff = model_to_py(m0[1]).get("core", {}).get("dialect") if m0[0] == "ok" and isinstance(model_to_py(m0[1]).get("core"), dict) else None
                    if eff is not None:
                        inline_d = any(l.replace(" ", "").startswith(("--sqlfluff:dialect:", "--sqlfluff:core:dialect:")) for l in ar.splitlines())
                        ctx.violation("dialect-required-before-inline", "linting by path refuses a file (No dialect was specified) whose effective configuration does set a dialect",
                                      {"input": sc.describe(), "file": "/".join(p), "effective_dialect": eff},
                                      attrs={"entry": "Linter.load_raw_file_and_config", "dialect_only_from_inline": inline_d})
                        continue
                    r = ("err", "ERuntime")
                if not same_outcome(m, r, model_to_py):
                    bad("Model.Config.file_config vs Linter.load_raw_file_and_config",
                        {"input": sc.describe(), "file": "/".join(p),
                         "difference": first_diff(model_to_py(m[1]), r[1]) if m[0] == "ok" and r[0] == "ok" else {"model": m[:2] if m[0] == "err" else "ok", "impl": r}})
        for (p, o), mi, gi in zip(info["queries"], iters, info["iters"]):
            mm = [tuple(dec_ot(x) for x in (q if isinstance(q, list) else [])) for q in mi]
            ctx.case(None, bucket="iter_intermediate_paths")
            if mm != gi:
                bad("Model.Config.iter_intermediate_paths vs helpers.file.iter_intermediate_paths",
                    {"input": {"inner": "/".join(p), "outer": "/".join(o), "dirs": sorted("/".join(d) for d in sc.dirs)}, "model": mm, "impl": gi})
        for (d, fname), ml, il in zip(info["cfgfiles"], loaded, info["loaded"]):
            ctx.case(None, bucket="load_file:" + ("toml" if fname == "pyproject.toml" else "ini"))
            if not same_outcome(dec_res(ml), il, py_tree):
                bad("Model.Config.load_file vs %s" % ("load_toml_file_config" if fname == "pyproject.toml" else "load_ini_string"),
                    {"input": sc.dirs[d][fname][1], "model": dec_res(ml), "impl": il})
        if "history" in info:
            check_history(ctx, sc, info, by_text, bad)
    ctx.coverage_extra["scenarios"] = len(scs)
    import resource
    ru_s, ru_c = resource.getrusage(resource.RUSAGE_SELF), resource.getrusage(resource.RUSAGE_CHILDREN)
    ctx.coverage_extra["cpu_s"] = {"harness_process": round(ru_s.ru_utime + ru_s.ru_stime, 1), "coqc_children": round(ru_c.ru_utime + ru_c.ru_stime, 1)}
    ctx.coverage_extra["scenario_sql_files"] = sum(len(sc.sql) for sc in scs)
    ctx.coverage_extra["theorem_hypotheses_checked_true"] = hyp_ok
    if hyp_ok != len(scs):
        bad("generated inputs satisfy the hypotheses of C27_precedence (fs_wfb / wfdb)", {"ok": hyp_ok, "of": len(scs)})


# ------------------------------------------------------------------------------------------------------------------------
# monitor 2: sequences of files through the real Linter.lint_paths, several orders, one process, warm caches

CLI_FLAGS = {"dialect": "--dialect", "rules": "--rules", "exclude_rules": "--exclude-rules", "templater": "--templater"}


def history(ctx, sc, root, kw, rng):
    from sqlfluff.core import FluffConfig, Linter
    paths = [spell(root, sc.cwd, p, rng) for p, _t in sc.sql]
    abs_of = {os.path.abspath(x): i for i, x in enumerate(paths)}
    orders = [list(paths), list(reversed(paths))]
    sh = list(paths)
    rng.shuffle(sh)
    orders.append(sh)
    if any(tuple(p[:len(sc.cwd)]) == tuple(sc.cwd) for p, _t in sc.sql):
        orders.append(["."])
    runs = []
    clear_caches()
    linter = Linter(config=FluffConfig.from_root(require_dialect=False, **kw))
    for order in orders:
        with Capture() as cap:
            err = None
            files = {}
            try:
                res = linter.lint_paths(tuple(order))
                files = {os.path.abspath(f.path): viol_sig(f) for d in res.paths for f in d.files}
            except Exception as e:  # noqa: BLE001
                import traceback
                err = (exc_kind(e), repr(e)[:300], traceback.format_exc()[-1800:])
        runs.append({"order": order, "events": cap.events, "violations": files, "err": err})
    solo = {}
    for x in paths:
        clear_caches()
        try:
            r = Linter(config=FluffConfig.from_root(require_dialect=False, **kw)).lint_paths((x,))
            solo[os.path.abspath(x)] = viol_sig(r.paths[0].files[0]) if r.paths[0].files else None
        except Exception as e:  # noqa: BLE001
            solo[os.path.abspath(x)] = ("err", exc_kind(e))
    out = {"runs": runs, "solo": solo, "abs_of": abs_of, "cli": None}
    # the same sequence through the command line
    if all(k in CLI_FLAGS and dec(v) is not None for k, v in sc.overrides.items()) and rng.random() < 0.5:
        from click.testing import CliRunner
        from sqlfluff.cli.commands import lint
        args = list(paths) + ["--format", "json"]
        for k, v in sc.overrides.items():
            if dec(v) is not None:
                args += [CLI_FLAGS[k], str(dec(v))]
        if "extra_config_path" in kw:
            args += ["--config", kw["extra_config_path"]]
        if sc.ignore_local:
            args += ["--ignore-local-config"]
        clear_caches()
        r = CliRunner().invoke(lint, args)
        try:
            data = json.loads(r.stdout)
            out["cli"] = {os.path.abspath(rec["filepath"]): sorted((v["code"], v["start_line_no"], v["start_line_pos"], v["description"][:60]) for v in rec["violations"])
                          for rec in data}
        except Exception:  # noqa: BLE001
            out["cli"] = {"unparsable": r.output[:500], "exit": r.exit_code}
        out["cli_args"] = args
    return out


def predicted_lt05(model_cfg, text):
    """line numbers LT05 must report, from the model's effective config (None = no prediction)"""
    core = model_cfg.get("core")
    if not isinstance(core, dict):
        return None
    mll, rules, excl = core.get("max_line_length"), core.get("rules"), core.get("exclude_rules")
    if not isinstance(mll, int) or isinstance(mll, bool) or isinstance(rules, dict) or isinstance(excl, dict):
        return None
    allow = split_csv(rules) if isinstance(rules, str) else []
    deny = split_csv(excl) if isinstance(excl, str) else []
    if any(x not in ("all", "LT05", "CP01", "LT01", "LT02") for x in allow + deny):
        return None
    enabled = ((not allow) or "all" in allow or "LT05" in allow) and "LT05" not in deny
    if not enabled or mll <= 0:
        return set()
    ll = model_cfg.get("rules", {}).get("layout.long_lines", {}) if isinstance(model_cfg.get("rules"), dict) else {}
    skip_comments = isinstance(ll, dict) and ll.get("ignore_comment_lines") is True
    out = set()
    for i, line in enumerate(text.split("\n"), 1):
        if len(line) > mll and not (skip_comments and line.lstrip().startswith("--")):
            out.add(i)
    return out


def check_history(ctx, sc, info, by_text, bad):
    hist = info["history"]
    idx_of = hist["abs_of"]
    models = [by_text[(p, ar)] for (p, _t), ar in zip(sc.sql, info["as_read"])]
    direct_ok = [same_outcome(m, d0[:2], model_to_py) for m, d0 in zip(models, info["direct"])]
    for run_i, r in enumerate(hist["runs"]):
        ctx.case(("hist", sc.label, repr(sc.describe()["files"]), repr(r["order"])), bucket="history-run",
                 sample={"scenario": sc.label, "order": r["order"], "files_linted": len(r["violations"])} if run_i == 2 and len(r["violations"]) > 2 else None)
        if r["err"] is not None:
            ctx.violation("history-run-raised", "lint_paths raised although every file's config loads on its own",
                          {"input": sc.describe(), "order": r["order"], "error": r["err"]}, attrs={"error": r["err"][0]})
            continue
        last_loaded = None
        for kind, ap, cfg, _raw in r["events"]:
            if kind == "load":
                last_loaded = ap
            who = ap if ap is not None else last_loaded
            if who not in idx_of:
                continue   # a file found by directory discovery that is not in the scenario list cannot happen; be safe
            i = idx_of[who]
            m = models[i]
            ctx.case(None, bucket="history-config-" + kind)
            if direct_ok[i] and not same_outcome(m, ("ok", cfg), model_to_py):
                others = [j for j, mj in enumerate(models) if j != i and mj[0] == "ok" and tree_eq(model_to_py(mj[1]), cfg, False)]
                ctx.violation("history-dependence", "inside a sequence a file is linted with a config that differs from its own config" +
                              (" (it is the config of another file of the run)" if others else ""),
                              {"input": sc.describe(), "order": r["order"], "file": "/".join(sc.sql[i][0]), "stage": kind,
                               "difference": first_diff(model_to_py(m[1]), cfg) if m[0] == "ok" else m},
                              attrs={"stage": kind, "equals_other_file": bool(others)})
        for ap, sig in r["violations"].items():
            if ap in hist["solo"] and hist["solo"][ap] != sig:
                ctx.violation("sequence-changes-result", "a file's violations differ between linting it alone and in a sequence",
                              {"input": sc.describe(), "order": r["order"], "file": os.path.relpath(ap, info["root"]), "alone": hist["solo"][ap], "in_sequence": sig},
                              attrs={"order_index": run_i})
    # the effective config is what the linter really uses: LT05 lines predicted from the model's effective values
    for i, ((p, t), m) in enumerate(zip(sc.sql, models)):
        ap = [a for a, j in idx_of.items() if j == i][0]
        sig = hist["solo"].get(ap)
        if m[0] != "ok" or not isinstance(sig, list):
            continue
        want = predicted_lt05(model_to_py(m[1]), t)
        if want is None:
            continue
        got = {ln for (code, ln, _pos, _d) in sig if code == "LT05"}
        ctx.case(("lt05", sc.label, p, repr(sorted(want))) if want else None, bucket="e2e-lt05:" + ("flagged" if want else "clean"))
        if got != want:
            ctx.violation("effective-config-not-used", "LT05 line set differs from the one predicted from the effective max_line_length/rules",
                          {"input": sc.describe(), "file": "/".join(p), "predicted_lines": sorted(want), "reported_lines": sorted(got),
                           "effective": {k: model_to_py(m[1])["core"].get(k) for k in ("max_line_length", "rules", "exclude_rules")}},
                          attrs={"more_reported": bool(got - want), "fewer_reported": bool(want - got)})
    if hist["cli"] is not None:
        ctx.case(("cli", sc.label, repr(hist.get("cli_args"))), bucket="cli-run")
        if "unparsable" in hist["cli"]:
            ctx.violation("cli-output", "sqlfluff lint --format json gave no JSON for a hierarchy the API lints", {"input": sc.describe(), "args": hist["cli_args"], "output": hist["cli"]})
        else:
            for ap, sig in hist["cli"].items():
                if ap in hist["solo"] and hist["solo"][ap] != sig:
                    ctx.violation("cli-vs-api", "the command line lints a file with a different effective configuration than the API",
                                  {"input": sc.describe(), "args": hist["cli_args"], "file": os.path.relpath(ap, info["root"]), "cli": sig, "api": hist["solo"][ap]})


# ------------------------------------------------------------------------------------------------------------------------
# monitor 3: strings (Linter.lint_string / parse_string): inline directives count for that string only

def string_monitor(ctx):
    from sqlfluff.core import FluffConfig, Linter
    long_line = "SELECT a FROM t WHERE a = 1 AND b = 2 AND c = 3 AND d = 4 AND e = 5 AND f = 6\n"   # 77 chars
    cases = [
        ("", {"LT05"}),
        ("-- sqlfluff:max_line_length:100\n", set()),
        ("-- sqlfluff:rules:CP01\n", set()),                     # F9: the rule pack must follow the inline directive
        ("-- sqlfluff:exclude_rules:LT05\n", set()),
        ("-- sqlfluff:max_line_length:60\n", {"LT05"}),
        ("--sqlfluff:rules:LT05\n", {"LT05"}),
    ]
    for ov in ({"dialect": "ansi", "max_line_length": 70}, {"dialect": "ansi", "max_line_length": 70, "rules": "LT05,CP01"}):
        linter = Linter(config=FluffConfig(overrides=ov))
        snapshot = norm_impl(linter.config._configs)
        seq = cases + list(reversed(cases)) + [cases[0]]
        for k, (pre, want) in enumerate(seq):
            lf = linter.lint_string(pre + long_line, fname="s%d.sql" % k)
            got = {v.rule_code() for v in lf.violations} & {"LT05"}
            ctx.case(("string", repr(ov), k, pre), bucket="lint_string")
            if got != want:
                ctx.violation("string-inline", "lint_string: the inline directives of the string are not what it is linted with (or an earlier string's are)",
                              {"input": {"overrides": ov, "text": pre + long_line, "position_in_sequence": k}, "LT05_reported": bool(got), "LT05_expected": bool(want)},
                              attrs={"directive": pre.strip() or "<none>", "expected": bool(want)})
            if not tree_eq(norm_impl(linter.config._configs), snapshot, True):
                ctx.violation("string-inline-leak", "lint_string changed the Linter's own config (inline directives leaked)",
                              {"input": {"overrides": ov, "text": pre + long_line}, "difference": first_diff(snapshot, norm_impl(linter.config._configs))})
                snapshot = norm_impl(linter.config._configs)
            ps = linter.parse_string(pre + long_line, fname="p%d.sql" % k)
            eff = ps.config.get("max_line_length")
            want_mll = 100 if "max_line_length:100" in pre else 60 if "max_line_length:60" in pre else 70
            if eff != want_mll:
                ctx.violation("string-inline", "parse_string: effective max_line_length is not (inline directive, else the override)",
                              {"input": {"overrides": ov, "text": pre + long_line}, "got": eff, "want": want_mll}, attrs={"directive": pre.strip() or "<none>", "expected": want_mll})
