"""C26 — writing fixed files is atomic and faithful (fault enumeration on the real write path)."""
import json
import os
import shutil
import stat
import subprocess
import sys
import tempfile
from concurrent.futures import ThreadPoolExecutor

from harness import coq

LEVEL = "proof"
COQ_TARGETS = ["theories/Properties/C26.vo"]
PROPERTY_FILES = ["theories/Properties/C26.v"]
RULE = ("fault enumeration: every primitive of _safe_create_replace_file (stat, NamedTemporaryFile, write [prefix 0/2 chars], flush, fsync, "
        "close, chmod, move) raising, and the process dying (os._exit) before/after each, x permission bits {644,600,755} x suffix on/off x "
        "encodings; natural UnicodeEncodeError; 3-file runs with a fault in the middle file; BOM/mode end to end through `sqlfluff fix`; "
        "`sqlfluff fix` on files of 1-19 KB (around the 8 KiB / 16 KiB buffer sizes, below the large-file skip limit) whose non-ASCII characters "
        "sit at the beginning / middle / only near the end, in utf-8, utf-8-sig, utf-16 (autodetected) and latin-1 / cp1252 / utf-8 (explicit "
        "--encoding): the rewritten file must decode in its original encoding to exactly the original text with the fixed ranges replaced. "
        "non-trivial = a run with a fault; distinct = distinct (fault, mode, suffix, encoding)")
ASSUMPTIONS = ["os.rename within one directory is atomic (a death during move is observed either before or after it)",
               "os.remove in the exception handler succeeds", "a dying process leaves the temp file as the model says only up to OS buffering; the harness flushes the prefix"]
TRUSTED_BASE = ["hand model Model/AtomicWrite.v of _safe_create_replace_file; fault-injection wrappers in this harness"]

OPS = ["stat", "create", "write", "flush", "fsync", "close", "chmod", "rename"]

DRIVER = r'''
import json, os, shutil, stat, sys, tempfile
spec = json.loads(sys.argv[1])
os.chdir(spec["dir"])
from sqlfluff.core.linter.linted_file import LintedFile
import sqlfluff.core.linter.linted_file as lfmod

k, j, kind, after = spec["k"], spec["j"], spec["kind"], spec["after"]   # kind: none | raise | die

class Boom(OSError):
    pass

def hit(real, *a, **kw):
    """the faulty primitive: raise, or die before/after really doing it"""
    if kind == "raise":
        raise Boom("injected")
    if kind == "interrupt":            # a BaseException that is not an Exception (Ctrl-C / SystemExit during the write)
        raise KeyboardInterrupt()
    if kind == "die":
        if after:
            real(*a, **kw)
        sys.stdout.flush()
        os._exit(9)

real_stat, real_ntf, real_fsync, real_chmod, real_move = os.stat, tempfile.NamedTemporaryFile, os.fsync, os.chmod, shutil.move
state = {"stat_calls": 0}

def f_stat(p, *a, **kw):
    if k == 0 and kind != "none" and os.path.basename(str(p)) == spec["input_name"] and state["stat_calls"] == 0:
        state["stat_calls"] += 1
        hit(real_stat, p, *a, **kw)
    return real_stat(p, *a, **kw)

class Proxy:
    def __init__(self, t):
        self._t = t
        self.name = t.name
        outer = self
        class F:
            def write(self_, data):
                if k == 2 and kind != "none":
                    if kind == "die" and after:
                        t.file.write(data); t.flush(); os._exit(9)
                    t.file.write(data[:j]); t.flush()
                    if kind == "die":
                        os._exit(9)
                    raise (KeyboardInterrupt() if kind == "interrupt" else Boom("injected write"))
                return t.file.write(data)
        self.file = F()
    def flush(self):
        if k == 3 and kind != "none":
            hit(self._t.flush)
        return self._t.flush()
    def fileno(self):
        return self._t.fileno()
    def __enter__(self):
        self._t.__enter__()
        return self
    def __exit__(self, *a):
        if k == 5 and kind != "none":
            if kind == "die":
                if after:
                    self._t.__exit__(*a)
                os._exit(9)
            self._t.__exit__(*a)
            raise (KeyboardInterrupt() if kind == "interrupt" else Boom("injected close"))
        return self._t.__exit__(*a)

def f_ntf(*a, **kw):
    if k == 1 and kind != "none":
        if kind == "die" and after:
            t = real_ntf(*a, **kw); t.flush(); os._exit(9)
        hit(lambda: None)
    return Proxy(real_ntf(*a, **kw))

def f_fsync(fd):
    if k == 4 and kind != "none":
        hit(real_fsync, fd)
    return real_fsync(fd)

def f_chmod(p, m, *a, **kw):
    if k == 6 and kind != "none":
        hit(real_chmod, p, m, *a, **kw)
    return real_chmod(p, m, *a, **kw)

def f_move(a, b, *r, **kw):
    if k == 7 and kind != "none":
        hit(real_move, a, b, *r, **kw)
    return real_move(a, b, *r, **kw)

os.stat = f_stat
tempfile.NamedTemporaryFile = f_ntf
os.fsync = f_fsync
os.chmod = f_chmod
shutil.move = f_move
res = "done"
try:
    LintedFile._safe_create_replace_file(spec["input_name"], spec["output_name"], spec["new"], spec["encoding"])
except BaseException as e:
    res = "raised:" + type(e).__name__
print(json.dumps({"result": res}))
'''


def observe(d, names, encoding):
    out = {}
    for role, n in names.items():
        p = os.path.join(d, n)
        if os.path.exists(p):
            out[role] = [open(p, "rb").read().decode(encoding, "backslashreplace"), stat.S_IMODE(os.stat(p).st_mode)]
        else:
            out[role] = None
    known = set(names.values())
    extra = sorted(f for f in os.listdir(d) if f not in known)
    out["temp"] = [[open(os.path.join(d, f), "rb").read().decode(encoding, "backslashreplace"), stat.S_IMODE(os.stat(os.path.join(d, f)).st_mode)] for f in extra]
    return out


def run_case(case):
    k, j, kind, after, mode, suffix, encoding, orig, new = case
    base = os.environ.get("TMPDIR") or "/var/tmp"
    d = tempfile.mkdtemp(prefix="verif-c26-", dir=base)
    try:
        names = {"input": "q.sql", "output": "qFIXED.sql" if suffix else "q.sql"}
        with open(os.path.join(d, "q.sql"), "w", encoding=encoding, newline="") as f:
            f.write(orig)
        os.chmod(os.path.join(d, "q.sql"), mode)
        spec = {"dir": d, "k": k, "j": j, "kind": kind, "after": after, "input_name": "q.sql", "output_name": names["output"],
                "new": new, "encoding": encoding}
        env = dict(os.environ, PYTHONPATH=os.environ.get("VERIF_REPO", "/repo") + "/src", PYTHONHASHSEED="0")
        p = subprocess.run([sys.executable, "-c", DRIVER, json.dumps(spec)], stdout=subprocess.PIPE, stderr=subprocess.PIPE, text=True, env=env, timeout=120)
        if p.returncode == 9:
            result = "died"
        else:
            try:
                result = json.loads(p.stdout.strip().split("\n")[-1])["result"]
            except Exception:
                result = "driver-error: rc=%d %s" % (p.returncode, p.stderr[-400:])
        return {"result": result, "fs": observe(d, names, encoding)}
    finally:
        shutil.rmtree(d, ignore_errors=True)


def model_lit(case):
    k, j, kind, after, mode, suffix, encoding, orig, new = case
    f = "FNone" if kind == "none" else ("(FRaise %d %d)" % (k, j) if kind in ("raise", "interrupt") else "(FDie %d %d %s)" % (k, j, coq.cbool(after)))
    o = "(Some (%s, %d))" % (coq.ctext(orig), mode)
    s0 = "(mkFs None %s None)" % o if suffix else "(mkFs %s None None)" % o
    return "(%s, %s, %s, %s)" % (coq.cbool(suffix), coq.ctext(new), f, s0)


MODEL_FN = ("fun c : bool * text * fault * fsst => let '(sfx, new, f, s0) := c in "
            "match safe_write sfx new f s0 with Done s => (0, tgt s, inp s, tmp s) | Raised s => (1, tgt s, inp s, tmp s) | Died s => (2, tgt s, inp s, tmp s) end")


def dec(x):
    if x is None:
        return None
    if isinstance(x, tuple) and x[0] == "Some":
        c, m = x[1]
        return ["".join(chr(ch) for ch in c), m]
    raise ValueError(x)


def e2e(ctx):
    """BOM, permission bits and encoding survive a real `sqlfluff fix`; a multi-file run with a fault in the middle file."""
    from click.testing import CliRunner
    from sqlfluff.cli import commands
    base = os.environ.get("TMPDIR") or "/var/tmp"
    for enc, bom in (("utf-8-sig", b"\xef\xbb\xbf"), ("utf-8", b"")):
        for mode in (0o640, 0o755):
            d = tempfile.mkdtemp(prefix="verif-c26e-", dir=base)
            try:
                p = os.path.join(d, "a.sql")
                open(p, "wb").write(bom + "SELECT a  from b -- café\n".encode("utf-8"))
                os.chmod(p, mode)
                r = CliRunner().invoke(commands.fix, [p, "--dialect", "ansi", "--rules", "LT01,CP01"])
                data = open(p, "rb").read()
                ctx.case(("e2e", enc, mode), bucket="e2e-fix-file")
                want = bom + "SELECT a FROM b -- café\n".encode("utf-8")
                if data != want or stat.S_IMODE(os.stat(p).st_mode) != mode or len(os.listdir(d)) != 1:
                    ctx.violation("e2e-write-unfaithful", "sqlfluff fix did not preserve BOM/encoding/permissions or left extra files",
                                  {"input": {"encoding": enc, "mode": oct(mode)}, "bytes": repr(data), "want": repr(want),
                                   "mode": oct(stat.S_IMODE(os.stat(p).st_mode)), "dir": os.listdir(d), "exit": r.exit_code})
                # suffix: original untouched
                open(p, "wb").write(bom + b"SELECT a  from b\n")
                r = CliRunner().invoke(commands.fix, [p, "--dialect", "ansi", "--rules", "LT01,CP01", "--fixed-suffix", "_fx"])
                if open(p, "rb").read() != bom + b"SELECT a  from b\n" or not os.path.exists(os.path.join(d, "a_fx.sql")):
                    ctx.violation("e2e-suffix", "--fixed-suffix modified the original or did not create the suffixed file",
                                  {"input": {"encoding": enc}, "dir": os.listdir(d)})
            finally:
                shutil.rmtree(d, ignore_errors=True)
    # multi-file: shutil.move fails for the 2nd file written
    from sqlfluff.core import FluffConfig, Linter
    d = tempfile.mkdtemp(prefix="verif-c26m-", dir=base)
    real_move = shutil.move
    try:
        for n in "abc":
            open(os.path.join(d, n + ".sql"), "w").write("SELECT a  from %s\n" % n)
        calls = {"n": 0}

        def bad_move(a, b, *r, **kw):
            calls["n"] += 1
            if calls["n"] == 2:
                raise OSError("injected")
            return real_move(a, b, *r, **kw)
        shutil.move = bad_move
        try:
            Linter(config=FluffConfig(overrides={"dialect": "ansi", "rules": "LT01,CP01"})).lint_paths((d,), fix=True, apply_fixes=True)
            raised = False
        except OSError:
            raised = True
        shutil.move = real_move
        states = {n: open(os.path.join(d, n + ".sql")).read() for n in "abc"}
        extra = [f for f in os.listdir(d) if f not in ("a.sql", "b.sql", "c.sql")]
        ctx.case(("multi", "move#2"), bucket="multi-file-fault")
        ok = all(v in ("SELECT a  from %s\n" % n, "SELECT a FROM %s\n" % n) for n, v in states.items())
        nfixed = sum(v == "SELECT a FROM %s\n" % n for n, v in states.items())
        if not ok or extra or not raised or nfixed != 1:
            ctx.violation("multi-file-fault", "a failed write in the middle of a multi-file fix corrupted a file, left a temp file, or was swallowed",
                          {"input": {"files": 3, "fault": "shutil.move raises on 2nd call"}, "states": states, "extra": extra, "raised": raised})
    finally:
        shutil.move = real_move
        shutil.rmtree(d, ignore_errors=True)


# text fragments by the smallest repertoire that can encode them
WORDS_LATIN1 = ["café", "naïve", "grüße", "señor", "Ångström", "crème brûlée", "ÁÉÍ"]
WORDS_CP1252 = WORDS_LATIN1 + ["€ 10", "“quoted”", "œuvre"]
WORDS_ANY = WORDS_CP1252 + ["→ arrow", "東京", "Ωμέγα", "naïve → café", "🙂"]
BROKEN, FIXED = "SELECT a  from b;\n", "SELECT a FROM b;\n"


def build_text(rng, size, where, words):
    """~size bytes of SQL: ASCII comment padding + clean statements, ONE fixable statement, non-ASCII text only in the places `where` names."""
    w = lambda: rng.choice(words)
    head = "-- %s: header %s\nSELECT '%s' AS c FROM t1;\n" % (w(), w(), w()) if "begin" in where else "-- header\nSELECT 'x' AS c FROM t1;\n"
    mid = "-- middle %s\nSELECT '%s' AS m FROM t2;\n" % (w(), w()) if "middle" in where else ""
    tail = "-- total %s, %s\nSELECT '%s' AS z FROM t3;\n" % (w(), w(), w()) if "end" in where else "SELECT 'z' AS z FROM t3;\n"
    pad = []
    n = len((head + mid + tail + BROKEN).encode("utf-8"))
    i = 0
    while n < size:
        line = "-- %04d %s\n" % (i, "licence text and notes " * rng.choice([1, 2, 3]))
        pad.append(line)
        n += len(line)
        i += 1
    half = len(pad) // 2
    parts = [head] + pad[:half] + [mid] + pad[half:] + [tail]
    parts.insert(rng.choice([1, 1 + half, len(parts) - 1, len(parts)]), BROKEN)
    return "".join(parts)


def e2e_encodings(ctx):
    """A successful `sqlfluff fix` keeps the file's encoding: bytes outside the fixed range identical, still decodable."""
    import codecs
    from click.testing import CliRunner
    from sqlfluff.cli import commands
    rng = ctx.rng
    base = os.environ.get("TMPDIR") or "/var/tmp"
    quick = ctx.tier == "quick"
    sizes = [1000, 9000, 15000] if quick else [300, 1000, 4000, 8150, 8250, 9000, 12000, 15000, 16500, 19000]
    wheres = [("begin",), ("end",), ("begin", "end"), ("middle",)] + ([] if quick else [("middle", "end"), ()])
    # (encoding the file is written in, --encoding argument or None for autodetection, repertoire)
    encs = [("utf-8", None, WORDS_ANY), ("utf-8-sig", None, WORDS_ANY), ("latin-1", "latin-1", WORDS_LATIN1), ("utf-8", "utf-8", WORDS_ANY),
            ("cp1252", "cp1252", WORDS_CP1252), ("utf-16", None, WORDS_ANY)]
    combos = [(sz, wh, e) for sz in sizes for wh in wheres for e in encs[:2]]
    rest = [(sz, wh, e) for sz in sizes for wh in wheres for e in encs[2:]]
    rng.shuffle(rest)
    combos += rest[: (8 if quick else 80)]
    d = tempfile.mkdtemp(prefix="verif-c26enc-", dir=base)
    try:
        for idx, (size, where, (enc, arg, words)) in enumerate(combos):
            text = build_text(rng, size, where, words)
            want_text = text.replace(BROKEN, FIXED)
            raw = text.encode(enc)
            p = os.path.join(d, "f%d.sql" % idx)
            with open(p, "wb") as f:
                f.write(raw)
            first = next((i for i, b in enumerate(text.encode("utf-8")) if b >= 128), None)
            inp = {"size_bytes": len(raw), "non_ascii_in": list(where), "first_non_ascii_byte_offset(utf-8)": first, "file_encoding": enc,
                   "--encoding": arg or "(autodetect)", "rules": "LT01,CP01", "head": text[:120], "tail": text[-160:]}
            args = [p, "--dialect", "ansi", "--rules", "LT01,CP01"] + (["--encoding", arg] if arg else [])
            r = CliRunner().invoke(commands.fix, args)
            data = open(p, "rb").read()
            os.remove(p)
            left = os.listdir(d)
            ctx.case(("enc", enc, arg, size, where), bucket="e2e-encoding-%s-%s" % (enc, "explicit" if arg else "auto"),
                     sample=dict(inp, exit=r.exit_code) if idx == 5 else None)
            attrs = {"encoding": enc, "explicit": bool(arg), "over_8k": len(raw) > 8192, "non_ascii_late_only": bool(where) and "begin" not in where}
            if left:
                ctx.violation("e2e-encoding-extra-files", "sqlfluff fix left extra files", {"input": inp, "dir": left}, attrs=attrs)
                for f_ in left:
                    os.remove(os.path.join(d, f_))
            if data == raw:
                # nothing was written (e.g. the file was skipped or could not be fixed): faithful, but not what this part is for
                ctx.count("e2e-encoding-not-rewritten")
                continue
            try:
                got_text = data.decode(enc)
            except UnicodeDecodeError as e:
                ctx.violation("e2e-encoding-lost", "after sqlfluff fix the file no longer decodes in its original encoding",
                              {"input": inp, "error": str(e), "exit": r.exit_code}, attrs=attrs)
                continue
            if enc == "utf-8-sig" and not data.startswith(codecs.BOM_UTF8):
                ctx.violation("e2e-encoding-bom", "sqlfluff fix dropped the UTF-8 BOM", {"input": inp, "exit": r.exit_code}, attrs=attrs)
            if got_text != want_text:
                i = next((i for i, (a, b) in enumerate(zip(got_text, want_text)) if a != b), min(len(got_text), len(want_text)))
                ctx.violation("e2e-encoding-unfaithful", "sqlfluff fix changed text outside the fixed range (file read or written in a "
                              "different encoding than its own)", {"input": inp, "first_difference_at_char": i, "got": got_text[max(0, i - 30):i + 60],
                                                                   "want": want_text[max(0, i - 30):i + 60], "exit": r.exit_code}, attrs=attrs)
    finally:
        shutil.rmtree(d, ignore_errors=True)


def run(ctx, coq_ok):
    cases = []
    orig, new = "abcé\n", "ABCDéx\n"
    modes = [0o644, 0o600, 0o755]
    for suffix in (False, True):
        for mode in modes:
            cases.append((0, 0, "none", False, mode, suffix, "utf-8", orig, new))
            for k in range(8):
                for j in ((0, 2) if k == 2 else (0,)):
                    if mode == 0o644 or k in (2, 6, 7):
                        cases.append((k, j, "raise", False, mode, suffix, "utf-8", orig, new))
        for k in range(1, 8):
            for after in (False, True):
                for j in ((1,) if k == 2 else (0,)):
                    cases.append((k, j, "die", after, 0o644, suffix, "utf-8", orig, new))
        for k in range(8):
            cases.append((k, 0, "interrupt", False, 0o644, suffix, "utf-8", orig, new))
    for enc in ("utf-8-sig", "latin-1"):
        cases.append((0, 0, "none", False, 0o644, False, enc, orig, new))
        cases.append((2, 2, "raise", False, 0o644, False, enc, orig, new))
        cases.append((7, 0, "die", False, 0o644, False, enc, orig, new))
    if ctx.tier == "thorough":
        for suffix in (False, True):
            for mode in modes:
                for k in range(1, 8):
                    for after in (False, True):
                        cases.append((k, 3 if k == 2 else 0, "die", after, mode, suffix, "utf-8-sig", orig, new))
    with ThreadPoolExecutor(max_workers=4) as ex:
        obs = list(ex.map(run_case, cases))
    # natural fault: unencodable character
    nat = run_case((99, 0, "none", False, 0o644, False, "ascii", "abc\n", "café\n"))
    ctx.case(("natural", "UnicodeEncodeError"), bucket="natural-fault")
    if not nat["result"].startswith("raised:UnicodeEncodeError") or nat["fs"]["input"] != ["abc\n", 0o644] or nat["fs"]["temp"]:
        ctx.violation("natural-encode-error", "an unencodable fixed string corrupted the file or left a temp file", {"input": "ascii + e-acute", "observed": nat})

    for c, o in zip(cases, obs):
        k, j, kind, after, mode, suffix, enc, _o, _n = c
        ctx.case((k, j, kind, after, mode, suffix, enc) if kind != "none" else None, bucket="%s@%s" % (kind, OPS[k] if k < 8 else "-"),
                 sample={"fault": [kind, OPS[k], j, after], "mode": oct(mode), "suffix": suffix, "observed": o} if kind == "die" and k == 2 else None)
        fs = o["fs"]
        tgt = fs["output"]
        inp0 = [orig, mode]
        newf = [new, mode]
        orig_tgt = None if suffix else inp0
        inpt = {"fault": [kind, OPS[k], j, after], "mode": oct(mode), "suffix": suffix, "encoding": enc}
        if o["result"].startswith("driver-error"):
            ctx.violation("driver-error", "fault-injection driver failed", {"input": inpt, "observed": o})
            continue
        if tgt != orig_tgt and tgt != newf:
            ctx.violation("target-torn", "target is neither the complete original nor the complete new content (with original mode)",
                          {"input": inpt, "observed": o}, attrs={"kind": kind, "op": OPS[k]})
        if suffix and fs["input"] != inp0:
            ctx.violation("suffix-input-touched", "the input file of a suffixed write was modified", {"input": inpt, "observed": o})
        if o["result"] != "died" and fs["temp"]:
            ctx.violation("temp-left", "a temp file remains after the write returned or raised", {"input": inpt, "observed": o}, attrs={"kind": kind, "op": OPS[k]})
        if o["result"] == "done" and tgt != newf:
            ctx.violation("success-unfaithful", "successful write did not produce the new content with the original mode", {"input": inpt, "observed": o})
    e2e(ctx)
    e2e_encodings(ctx)
    if not coq_ok:
        return
    model = coq.eval_sharded(["Model.AtomicWrite"], MODEL_FN, [model_lit(c) for c in cases], shard=200)
    n = 0
    for c, o, m in zip(cases, obs, model):
        kindm, mt, mi, mtmp = m
        want_kind = {"done": 0, "died": 2}.get(o["result"], 1 if o["result"].startswith("raised") else -1)
        fs = o["fs"]
        impl = (want_kind, fs["output"], fs["input"] if c[5] else None, fs["temp"][0] if fs["temp"] else None)
        mdl = (kindm, dec(mt), dec(mi), dec(mtmp))
        n += 1
        if want_kind == 2:
            # after a process death the temp file's *content* depends on OS/Python buffering: compare presence only
            impl = impl[:3] + (impl[3] is not None,)
            mdl = mdl[:3] + (mdl[3] is not None,)
        if impl != mdl:
            ctx.broken_obligation("correspondence Model.AtomicWrite.safe_write vs _safe_create_replace_file",
                                  {"case(k,j,kind,after,mode,suffix,enc)": list(c[:7]), "model(kind,tgt,inp,tmp)": mdl, "impl": impl})
            break
    ctx.coverage_extra["model_vs_impl_cases"] = n
    ctx.coverage_extra["exhaustive"] = True
