"""C02 — parsing is lossless: tree leaves are exactly the lexed tokens. (C03 shares the machinery: harness/props/c03.py)"""
import itertools

from harness import coq, corpus

LEVEL = "proof"
COQ_TARGETS = ["theories/Properties/C02.vo"]
PROPERTY_FILES = ["theories/Properties/C02.v"]
RULE = ("(1) correspondence of Model/MatchResult.v (append, wrap, apply) with the real MatchResult class on exhaustively enumerated small "
        "and seeded random match results incl. malformed ones (overlapping children, inserts outside the slice), compared as whole trees or "
        "exception class; (2) run-time certificate: the root MatchResult of real parses is converted to the model and the verified checker wf_b "
        "is evaluated on it in Coq (accept => by theorem C02_apply_lossless the tree's leaves are exactly the matched tokens); (3) end-to-end: "
        "fixtures of every dialect and token-level mutations, tree leaves vs lexer tokens (text + source and templated positions), unparsable "
        "nodes vs PRS errors. non-trivial = a match result with >=1 child and >=1 insert, or a parse whose tree has an unparsable node or "
        ">= 20 tokens; distinct by value")
ASSUMPTIONS = ["segment classes construct their node from exactly the segments handed to from_result_segments (checked end to end by (3))",
               "BaseSegment construction asserts (validate_non_code_ends) are not in the model of apply: the correspondence uses classed matches that begin/end on code",
               "combinators build results only through MatchResult(...), append and wrap (the certificate checks every real root result regardless)"]
TRUSTED_BASE = ["hand model Model/MatchResult.v of core/parser/match_result.py", "harness/treecheck.py conversion of real MatchResults to model terms"]

EK = {"AssertionError": "EAssert", "ValueError": "EValue", "IndexError": "EIndex"}


# ---- real-side helpers --------------------------------------------------------------------------------------------------------
def _mk_env(n):
    from sqlfluff.core.parser import BaseSegment, RawSegment
    from sqlfluff.core.parser.markers import PositionMarker
    from sqlfluff.core.parser.segments.meta import Dedent, Indent
    from sqlfluff.core.templaters.base import TemplatedFile
    src = "".join(chr(97 + i % 26) for i in range(max(n, 1)))
    tf = TemplatedFile(source_str=src, fname="m.sql")
    toks = tuple(RawSegment(src[i], PositionMarker(slice(i, i + 1), slice(i, i + 1), tf)) for i in range(n))
    classes = [type("K%d" % i, (BaseSegment,), {"type": "k%d" % i}) for i in range(3)]
    return toks, classes, [Indent, Dedent]


def _real_mr(t, classes, metas):
    """t = (s, e, c, ins, ch) nested python tuple -> real MatchResult (may raise AssertionError from __post_init__)"""
    from sqlfluff.core.parser.match_result import MatchResult
    s, e, c, ins, ch = t
    return MatchResult(slice(s, e), matched_class=None if c is None else classes[c],
                       insert_segments=tuple((i, metas[m]) for i, m in ins), child_matches=tuple(_real_mr(x, classes, metas) for x in ch))


def _mr_lit(t):
    s, e, c, ins, ch = t
    return "(MR %d %d %s %s %s)" % (s, e, "None" if c is None else "(Some %d)" % c,
                                    "[" + ";".join("(%d,%d)" % im for im in ins) + "]", "[" + ";".join(_mr_lit(x) for x in ch) + "]")


def _tree_of(seg, toks_pos, classes, metas):
    if id(seg) in toks_pos:
        return ("Tok", toks_pos[id(seg)])
    if seg.is_meta:
        return ("Meta", metas.index(type(seg)), seg.pos_marker.templated_slice.start)
    return ("Node", classes.index(type(seg)), [_tree_of(x, toks_pos, classes, metas) for x in seg.segments])


def _canon_mr(m, classes, metas):
    return (m.matched_slice.start, m.matched_slice.stop, None if m.matched_class is None else classes.index(m.matched_class),
            [(i, metas.index(k)) for i, k in m.insert_segments], [_canon_mr(x, classes, metas) for x in m.child_matches])


def _canon_model_mr(v):
    # parsed Coq value ('MR', s, e, c, ins, ch)
    _, s, e, c, ins, ch = v
    c = None if c is None else (c[1] if isinstance(c, tuple) else c)
    return (s, e, c, [tuple(x) for x in ins], [_canon_model_mr(x) for x in ch])


def _canon_model_tree(v):
    if v[0] == "Tok":
        return ("Tok", v[1])
    if v[0] == "Meta":
        return ("Meta", v[1], v[2])
    return ("Node", v[1], [_canon_model_tree(x) for x in v[2]])


def _res(v, f):
    if isinstance(v, tuple) and v[0] == "Ok":
        return ("Ok", f(v[1]))
    if isinstance(v, tuple) and v[0] == "Err":
        e = v[1]
        return ("Err", e[0] if isinstance(e, tuple) else e)
    raise ValueError("unexpected model result %r" % (v,))


# ---- generators ---------------------------------------------------------------------------------------------------------------
def gen_mr(rng, n, depth, s=None, e=None, malformed=False):
    if s is None:
        s = rng.randrange(0, n + 1)
        e = rng.randrange(s, n + 1)
    c = rng.choice([None, None, 0, 1, 2])
    ins, ch = [], []
    if e == s:
        if not malformed or rng.random() < 0.7:
            c = None
        for _ in range(rng.choice([0, 0, 1, 2])):
            ins.append((s if not malformed or rng.random() < 0.8 else rng.randrange(0, n + 2), rng.randrange(2)))
        return (s, e, c, ins, [])
    for _ in range(rng.choice([0, 1, 1, 2, 3])):
        ins.append((rng.randrange(s, e + 1) if not malformed or rng.random() < 0.8 else rng.randrange(0, n + 2), rng.randrange(2)))
    if depth > 0:
        cuts = sorted(rng.randrange(s, e + 1) for _ in range(rng.choice([0, 2, 2, 4])))
        for a, b in zip(cuts[0::2], cuts[1::2]):
            if malformed and rng.random() < 0.3:
                a = max(s, a - 1)
                b = min(n, b + 1)
            sub = gen_mr(rng, n, depth - 1, a, b, malformed)
            if a == b and (sub[2] is not None):
                continue
            ch.append(sub)
        if malformed and ch and rng.random() < 0.3:
            rng.shuffle(ch)
    return (s, e, c, ins, ch)


def small_mrs(n):
    """exhaustive: every result over n tokens with <=1 insert and <=1 leaf child (with <=1 insert), classes {None, 0}"""
    out = []
    for s in range(n + 1):
        for e in range(s, n + 1):
            for c in (None, 0):
                if e == s and c is not None:
                    continue
                for ins in [[]] + [[(i, 0)] for i in range(n + 2)]:
                    chs = [[]]
                    if e > s:
                        for a in range(n + 1):
                            for b in range(a, n + 1):
                                for cc in (None, 1):
                                    if a == b and cc is not None:
                                        continue
                                    for cins in [[]] + ([[(a, 1)]] if True else []):
                                        chs.append([(a, b, cc, cins, [])])
                    for ch in chs:
                        out.append((s, e, c, ins, ch))
    return out


def run(ctx, coq_ok):
    rng = ctx.rng
    N = 5
    toks, classes, metas = _mk_env(N)
    pos = {id(t): i for i, t in enumerate(toks)}

    # ---------- (1) correspondence: apply
    cases = small_mrs(3) if ctx.tier == "quick" else small_mrs(4)
    nrand = 600 if ctx.tier == "quick" else 6000
    for _ in range(nrand):
        cases.append(gen_mr(rng, N, 2, malformed=rng.random() < 0.4))
    impl, lits, kept = [], [], []
    for t in cases:
        try:
            m = _real_mr(t, classes, metas)
        except AssertionError:
            ctx.count("apply:ctor-rejects")
            continue
        nloc = N if t[1] <= 3 and len(cases) and t in cases[:0] else N
        try:
            res = m.apply(toks)
            r = ("Ok", [_tree_of(x, pos, classes, metas) for x in res])
        except (AssertionError, ValueError, IndexError) as ex:
            r = ("Err", EK[type(ex).__name__])
        nontriv = bool(t[3]) and bool(t[4])
        ctx.case(repr(t) if nontriv else None, bucket="apply:%s" % (r[0] if r[0] == "Ok" else r[1]),
                 sample={"match_result(s,e,class,inserts,children)": t, "real_apply": r} if nontriv and r[0] == "Ok" and len(t[4]) > 1 else None)
        impl.append(r)
        lits.append(_mr_lit(t))
        kept.append(t)
        # the property on the implementation: a successful apply of a certified result keeps exactly its tokens (checked below via wf_b)
    # ---------- append / wrap
    aw_cases, aw_impl, aw_lits = [], [], []
    for _ in range(300 if ctx.tier == "quick" else 3000):
        a = gen_mr(rng, N, 1)
        b = gen_mr(rng, N, 1, malformed=rng.random() < 0.3)
        extra = [(rng.randrange(0, N + 1), rng.randrange(2)) for _ in range(rng.choice([0, 0, 1]))]
        try:
            ra, rb = _real_mr(a, classes, metas), _real_mr(b, classes, metas)
        except AssertionError:
            continue
        try:
            r1 = ("Ok", _canon_mr(ra.append(rb, insert_segments=tuple((i, metas[m]) for i, m in extra)), classes, metas))
        except AssertionError:
            r1 = ("Err", "EAssert")
        try:
            r2 = ("Ok", _canon_mr(ra.wrap(classes[2], insert_segments=tuple((i, metas[m]) for i, m in extra)), classes, metas))
        except AssertionError:
            r2 = ("Err", "EAssert")
        ctx.case(("aw", repr(a), repr(b), repr(extra)), bucket="append:%s wrap:%s" % (r1[0], r2[0]))
        aw_cases.append((a, b, extra))
        aw_impl.append((r1, r2))
        el = "[" + ";".join("(%d,%d)" % x for x in extra) + "]"
        aw_lits.append("(append %s %s %s, wrap %s 2 %s)" % (_mr_lit(a), _mr_lit(b), el, _mr_lit(a), el))

    # ---------- root_parse assembly (BaseFileSegment.root_parse with a stub root grammar returning a chosen match)
    from sqlfluff.core.parser import BaseSegment, RawSegment, WhitespaceSegment
    from sqlfluff.core.parser.context import ParseContext
    from sqlfluff.core.parser.markers import PositionMarker
    from sqlfluff.core.parser.segments.base import UnparsableSegment
    from sqlfluff.core.parser.segments.file import BaseFileSegment
    from sqlfluff.core.templaters.base import TemplatedFile
    from sqlfluff.core.dialects import dialect_selector
    rp_cases, rp_impl, rp_lits = [], [], []
    NR = 6
    tfr = TemplatedFile(source_str="abcdef", fname="r.sql")
    for _ in range(250 if ctx.tier == "quick" else 2500):
        code = [rng.random() < 0.6 for _ in range(NR)]
        rtoks = tuple((RawSegment if code[i] else WhitespaceSegment)("abcdef"[i], PositionMarker(slice(i, i + 1), slice(i, i + 1), tfr)) for i in range(NR))
        rpos = {id(t): i for i, t in enumerate(rtoks)}
        first = next((i for i in range(NR) if code[i]), None)
        if first is None or rng.random() < 0.15:
            mt = (0, 0, None, [], [])
        else:
            last = max(i for i in range(NR) if code[i]) + 1
            a = first if rng.random() < 0.85 else rng.randrange(0, NR)
            b = rng.randrange(a, last + 1) if a <= last else a
            mt = gen_mr(rng, NR, 1, a, b, malformed=rng.random() < 0.15)
            # segment construction asserts that a classed node begins and ends on code (validate_non_code_ends, outside the model):
            # keep non-code tokens outside the matched slice
            def max_stop(t):
                return max([t[1]] + [max_stop(x) for x in t[4]])
            def min_start(t):
                return min([t[0]] + [min_start(x) for x in t[4]])
            for i in range(min(a, min_start(mt)), min(max(b, max_stop(mt)), NR)):
                code[i] = True
            rtoks = tuple((RawSegment if code[i] else WhitespaceSegment)("abcdef"[i], PositionMarker(slice(i, i + 1), slice(i, i + 1), tfr)) for i in range(NR))
            rpos = {id(t): i for i, t in enumerate(rtoks)}
        try:
            real_m = _real_mr(mt, classes, metas)
        except AssertionError:
            continue

        class StubGrammar:
            def match(self, segments, idx, parse_context, _m=real_m):
                return _m

            def __str__(self):
                return "stub"
        FileCls = type("FileStub", (BaseFileSegment,), {"match_grammar": StubGrammar()})

        def canon_rp(seg):
            if id(seg) in rpos:
                return ("Tok", rpos[id(seg)])
            if seg.is_meta:
                return ("Meta", metas.index(type(seg)), seg.pos_marker.templated_slice.start)
            if isinstance(seg, BaseFileSegment):
                return ("Node", 0, [canon_rp(x) for x in seg.segments])
            if isinstance(seg, UnparsableSegment):
                return ("Node", 1, [canon_rp(x) for x in seg.segments])
            return ("Node", 10 + classes.index(type(seg)), [canon_rp(x) for x in seg.segments])
        try:
            root = FileCls.root_parse(rtoks, ParseContext(dialect=dialect_selector("ansi"), max_parse_depth=255))
            r = ("Ok", canon_rp(root))
        except (AssertionError, ValueError, IndexError) as ex:
            r = ("Err", EK[type(ex).__name__])
        ctx.case(("root_parse", repr(code), repr(mt)) if mt[1] > mt[0] else None, bucket="root_parse:%s" % r[0])
        rp_cases.append((code, mt))
        rp_impl.append(r)
        # classes are shifted by 10 in the model term so that they cannot collide with file (0) / unparsable (1)
        def shift(t):
            s0, e0, c0, i0, ch0 = t
            return (s0, e0, None if c0 is None else c0 + 10, i0, [shift(x) for x in ch0])
        rp_lits.append("root_parse %d (fun i => nth i %s false) %s" % (NR, "[" + ";".join(coq.cbool(c) for c in code) + "]", _mr_lit(shift(mt))))

    certs = []
    # ---------- (3) end-to-end + (2) certificates from real parses
    per = 3 if ctx.tier == "quick" else 25
    muts = 2 if ctx.tier == "quick" else 4
    items = corpus.corpus(rng, per, muts, max_chars=1200 if ctx.tier == "quick" else 4000)
    ncert = 0
    jobs = []
    for k, (d, label, sql) in enumerate(items):
        want = (k % 4 == 0)
        jobs.append((d, label, sql, want, k % 3 == 1))   # a third of the parses with parse statistics switched on
    for (d, label, sql, _w, _ps), st, res in corpus.pmap("harness.treecheck", "parse_case", jobs):
        if st != "ok":
            ctx.broken_obligation("harness worker crashed on %s/%s" % (d, label), res)
            continue
        nontriv = (res["unparsable"] or 0) > 0 or res["ntokens"] >= 20
        ctx.case(("parse", d, sql) if nontriv else None, bucket="parse:%s" % ("exc" if res["exc"] else "fatal" if res["fatal_prs"] else
                                                                             "unparsable" if res["unparsable"] else "clean"),
                 sample={"dialect": d, "file": label, "tokens": res["ntokens"], "unparsable_nodes": res["unparsable"]} if nontriv and res["unparsable"] else None)
        for key, what in res["c02"]:
            ctx.violation("parse-" + key, "%s (dialect %s)" % (what, d), {"input": {"dialect": d, "label": label, "sql": sql}}, attrs={"dialect": d, "kind": key})
        if res["cert"]:
            certs.append((d, label, sql, res["cert"]))
    ctx.coverage_extra["parsed_files"] = len(items)

    if not coq_ok:
        return
    # ---------- model side
    model = coq.eval_sharded(["Model.MatchResult"], "fun m => (apply %d m, wf_b %d m)" % (N, N), lits, shard=300)
    for t, mv, r in zip(kept, model, impl):
        mres = _res(mv[0], lambda l: [_canon_model_tree(x) for x in l])
        if mres != r:
            ctx.broken_obligation("correspondence Model.MatchResult.apply vs MatchResult.apply", {"input": t, "model": mres, "impl": r})
            break
        if mv[1] is True:
            # certified => real apply succeeded and its leaves are exactly s..e-1 (the theorem, observed on the implementation)
            def leaves(tr):
                return [tr[1]] if tr[0] == "Tok" else [] if tr[0] == "Meta" else [x for c in tr[2] for x in leaves(c)]
            if r[0] != "Ok" or [x for tr in r[1] for x in leaves(tr)] != list(range(t[0], t[1])):
                ctx.violation("apply-lossy", "a certified match result is applied lossily by the real MatchResult.apply",
                              {"input": {"match_result": t}, "impl": r}, attrs={"site": "MatchResult.apply"})
    aw_model = coq.eval_sharded(["Model.MatchResult"], "fun x => x", aw_lits, shard=200)
    for (a, b, extra), mv, (r1, r2) in zip(aw_cases, aw_model, aw_impl):
        m1, m2 = _res(mv[0], _canon_model_mr), _res(mv[1], _canon_model_mr)
        if m1 != r1:
            ctx.broken_obligation("correspondence Model.MatchResult.append vs MatchResult.append", {"input": [a, b, extra], "model": m1, "impl": r1})
            break
        if m2 != r2:
            ctx.broken_obligation("correspondence Model.MatchResult.wrap vs MatchResult.wrap", {"input": [a, extra], "model": m2, "impl": r2})
            break
    rp_model = coq.eval_sharded(["Model.MatchResult"], "fun x : res tree => x", rp_lits, shard=100)
    for (code, mt), mv, r in zip(rp_cases, rp_model, rp_impl):
        m = _res(mv, _canon_model_tree)
        if m != r:
            ctx.broken_obligation("correspondence Model.MatchResult.root_parse vs BaseFileSegment.root_parse", {"input": {"is_code": code, "match": mt}, "model": m, "impl": r})
            break
        # the theorem observed on the implementation: certified match starting at the first code token => every token once, in order
    # ---------- certificates
    cl = ["wf_b %d %s" % (c[1], c[0]) for (_d, _l, _s, c) in certs]
    if cl:
        oks = coq.eval_sharded(["Model.MatchResult"], "fun b : bool => b", cl, shard=20)
        for (d, label, sql, c), ok in zip(certs, oks):
            ctx.programs += 1
            if not ok:
                ctx.violation("root-match-not-wf", "the root MatchResult of a real parse is rejected by the verified checker wf_b (dialect %s)" % d,
                              {"input": {"dialect": d, "label": label, "sql": sql}, "match_result": c[0][:2000]}, attrs={"dialect": d})
            elif len(c) > 5 and not c[5]:
                ctx.violation("root-match-start", "the root match does not start at the first code token: tokens before it would be dropped by root_parse (dialect %s)" % d,
                              {"input": {"dialect": d, "label": label, "sql": sql}}, attrs={"dialect": d})
            elif not c[2]:
                ctx.violation("root-apply-lossy", "the tree built from a certified root MatchResult does not hold exactly the matched tokens (dialect %s)" % d,
                              {"input": {"dialect": d, "label": label, "sql": sql}}, attrs={"dialect": d})
    ctx.coverage_extra["root_match_certificates_checked"] = len(cl)
    ctx.coverage_extra["model_vs_impl_cases"] = len(lits) + len(aw_lits) + len(rp_lits)
