"""C30 — edits are applied to disjoint source ranges exactly once."""
import itertools

from harness import coq

LEVEL = "proof"
COQ_TARGETS = ["theories/Properties/C30.vo"]
PROPERTY_FILES = ["theories/Properties/C30.v"]
RULE = ("exhaustive: source 'abcd'[:n], every list of <=2 patches over all ranges 0<=a<=b<=n x texts {'', X, Y}, in one buffer and split "
        "over two; plus seeded random lists of 3-4 patches with 0-2 source-only slices and a malformed stream (stop<start, out of range). "
        "non-trivial = at least two patches that overlap, touch or coincide; distinct = distinct (source, buffers, source-only slices)")
ASSUMPTIONS = ["Python sorted() is stable and orders (start, stop) tuples lexicographically (modelled by a stable insertion sort)"]
TRUSTED_BASE = ["hand model Model/Patch.v of _patches_conflict, merge_source_patches, _slice_source_file_using_patches, _build_up_fixed_source_string"]

SRC = "abcdef"


def mk(p):
    from sqlfluff.core.linter.patch import FixPatch
    a, b, t = p
    return FixPatch(slice(a, b), t, "literal", slice(a, b), "", "")


def impl_run(src, bufs, so):
    from sqlfluff.core.linter.linted_file import LintedFile
    from sqlfluff.core.linter.patch import merge_source_patches
    from sqlfluff.core.templaters.base import RawFileSlice
    merged = merge_source_patches([[mk(p) for p in b] for b in bufs])
    so_objs = [RawFileSlice(src[a:b], "comment", a) for (a, b) in so]
    slices = LintedFile._slice_source_file_using_patches(merged, list(so_objs), src)
    out = LintedFile._build_up_fixed_source_string(slices, merged, src)
    return ([(p.source_slice.start, p.source_slice.stop, p.fixed_raw) for p in merged],
            [(s.start, s.stop) for s in slices], out)


def cpatch(p):
    return "(mkPatch %d %d %s)" % (p[0], p[1], coq.ctext(p[2]))


def ccase(src, bufs, so):
    return "(%s, %s, %s)" % (coq.ctext(src), coq.clist([coq.clist([cpatch(p) for p in b]) if b else "(@nil patch)" for b in bufs]),
                             coq.clist(["(%d,%d)" % s for s in so]) if so else "(@nil sl)")


MODEL_FN = ("fun c : text * list (list patch) * list sl => let '(src, bufs, so) := c in let m := merge bufs in "
            "(map (fun p => (p_start p, p_stop p, p_text p)) m, slice_source m so (length src), fix_source m so src)")


def splice(src, applied):
    out, idx = "", 0
    for (a, b, t) in applied:
        out += src[idx:a] + t
        idx = b
    return out + src[idx:]


def property_holds(src, merged, out):
    """exists a sublist of merged with pairwise disjoint ascending ranges whose splice is the output"""
    n = len(merged)
    for mask in range(1 << n):
        sub = [merged[i] for i in range(n) if mask >> i & 1]
        ok = all(sub[i][1] <= sub[i + 1][0] for i in range(len(sub) - 1))
        if ok and splice(src, sub) == out:
            return True
    return False


def run(ctx, coq_ok):
    cases = []
    n = 4
    src = SRC[:n]
    ranges = [(a, b) for a in range(n + 1) for b in range(a, n + 1)]
    pats = [(a, b, t) for (a, b) in ranges for t in ("", "X", "Y")]
    for p in pats:
        cases.append((src, [[p]], []))
    step = 1 if ctx.tier == "thorough" else 1
    for p, q in itertools.product(pats, repeat=2):
        cases.append((src, [[p, q]], []))
        if ctx.tier == "thorough" or (p[0] + q[1]) % 2 == 0:
            cases.append((src, [[p], [q]], []))
    # random triples/quads with source-only slices
    nrand = 1500 if ctx.tier == "quick" else 20000
    for _ in range(nrand):
        n2 = ctx.rng.choice([3, 4, 5, 6])
        s2 = SRC[:n2]
        k = ctx.rng.choice([2, 3, 3, 4])
        ps = []
        for _ in range(k):
            a = ctx.rng.randrange(0, n2 + 1)
            b = ctx.rng.randrange(a, min(n2, a + 3) + 1)
            ps.append((a, b, ctx.rng.choice(["", "X", "Y", "ZZ"])))
        nb = ctx.rng.choice([1, 2, 3])
        bufs = [[] for _ in range(nb)]
        for p in ps:
            bufs[ctx.rng.randrange(nb)].append(p)
        for b in bufs:
            b.sort(key=lambda p: p[0])
        so = []
        if ctx.rng.random() < 0.4:
            a = ctx.rng.randrange(0, n2)
            b = ctx.rng.randrange(a + 1, n2 + 1)
            so.append((a, b))
            if b < n2 and ctx.rng.random() < 0.3:
                so.append((b, ctx.rng.randrange(b + 1, n2 + 1)))
        cases.append((s2, bufs, so))
    # malformed stream (correspondence only)
    malformed = []
    for _ in range(200 if ctx.tier == "quick" else 2000):
        ps = [(ctx.rng.randrange(0, 7), ctx.rng.randrange(0, 8), ctx.rng.choice(["", "X"])) for _ in range(ctx.rng.choice([1, 2, 3]))]
        malformed.append((SRC[:4], [ps], []))

    impl = []
    for (s, bufs, so) in cases + malformed:
        try:
            r = impl_run(s, bufs, so)
        except Exception as e:  # the patch layer must never raise on well-formed patches
            r = ("EXC", type(e).__name__)
        impl.append(r)
    for (s, bufs, so), r in zip(cases, impl[:len(cases)]):
        allp = [p for b in bufs for p in b]
        nontriv = len(allp) >= 2 and any(max(p[0], q[0]) <= min(p[1], q[1]) for i, p in enumerate(allp) for q in allp[i + 1:])
        ctx.case((s, repr(bufs), repr(so)) if nontriv else None,
                 sample={"src": s, "buffers": bufs, "source_only": so, "impl": r} if nontriv and len(allp) > 2 else None,
                 bucket="patches=%d,so=%d" % (len(allp), len(so)))
        if r[0] == "EXC":
            ctx.violation("patch-layer-exception", "patch merge/apply raised %s" % r[1], {"input": {"src": s, "buffers": bufs, "source_only": so}})
            continue
        merged, slices, out = r
        # monitor on the implementation's own output
        for i, a in enumerate(merged):
            for b in merged[i + 1:]:
                same = a == b
                overlap = max(a[0], b[0]) < min(a[1], b[1])
                samerange = (a[0], a[1]) == (b[0], b[1])
                if same or overlap or samerange:
                    ctx.violation("merged-patches-conflict", "two merged patches overlap or duplicate each other",
                                  {"input": {"src": s, "buffers": bufs, "source_only": so}, "merged": merged})
        if not so and not property_holds(s, merged, out):
            ctx.violation("fix-not-a-splice", "fixed text is not the source with a disjoint subset of the merged patches substituted for their ranges",
                          {"input": {"src": s, "buffers": bufs, "source_only": so}, "merged": merged, "out": out})
    ctx.count("malformed", len(malformed))
    ctx.evaluations += len(malformed)
    if not coq_ok:
        return
    lits = [ccase(*c) for c in cases + malformed]
    model = coq.eval_sharded(["Model.Patch"], MODEL_FN, lits, shard=500)
    for c, m, r in zip(cases + malformed, model, impl):
        mmerged, mslices, mout = m
        mmerged = [(x[0], x[1], "".join(chr(ch) for ch in x[2])) for x in mmerged]
        mslices = [tuple(x) for x in mslices]
        mout = "".join(chr(ch) for ch in mout)
        if r[0] == "EXC" or (mmerged, mslices, mout) != (r[0], r[1], r[2]):
            ctx.broken_obligation("correspondence Model.Patch vs merge_source_patches/_slice_source_file_using_patches/_build_up_fixed_source_string",
                                  {"input": {"src": c[0], "buffers": c[1], "source_only": c[2]}, "model": [mmerged, mslices, mout], "impl": r})
            break
    ctx.coverage_extra["exhaustive"] = True
    ctx.coverage_extra["model_vs_impl_cases"] = len(lits)
