"""C13 — fixing never makes a parsable file unparsable."""
from harness import coq, corpus, fixjobs

LEVEL = "proof"
COQ_TARGETS = ["theories/Properties/C13.vo"]
PROPERTY_FILES = ["theories/Properties/C13.v"]
RULE = ("(1) trace validation of Model/FixLoop.v: every apply_fixes call of real fix runs is recorded (rule, tree before, fixes, tree built, validity flag) and "
        "replayed through the model's adoption gate; the model's tree after each event must be the tree the real loop carried into the next event, "
        "and its final tree the real result; (2) monitor: inputs that render, lex and parse cleanly (fixtures of every dialect, mutations that stay "
        "parsable, operator/keyword adjacency cases) are fixed under layout / core / all / format rule sets and the fixed TEXT is rendered, lexed "
        "and parsed again with the same configuration: any TMP/LXR/PRS error is a violation. non-trivial = fix run that changed the file")
ASSUMPTIONS = ["PARTIAL: rules and apply_fixes (reparse validation) are an oracle in the model; the truthfulness of the validity flag for the written text is checked per run"]
TRUSTED_BASE = ["hand model Model/FixLoop.v (trace-validated here)", "harness/fixcheck.py"]
FORMAT_RULES = "LT01,LT02,LT03,LT04,LT05,LT06,LT07,LT08,LT09,LT10,LT11,LT12,LT13,LT14,LT15,CP01,CP02,CP03,CP04,CP05"


def run(ctx, coq_ok):
    js = fixjobs.jobs(ctx, ["layout", "core", "all", FORMAT_RULES, "convention", "structure", "CV11,CP01", "ambiguous,aliasing,references"], ("reparse", "events"))
    for rs in ("all", "structure", "convention"):
        js += fixjobs.comment_jobs(ctx, rs, ("reparse", "events"), ((),), n_quick=16, n_thorough=150)
    traces = []
    nchanged = 0
    for (d, tpl, style, label, src, rules, extra, want), st, res in corpus.pmap("harness.fixcheck", "fix_case", js):
        if st != "ok":
            ctx.broken_obligation("harness worker crashed on %s" % label, res)
            continue
        changed = bool(res.get("changed"))
        nchanged += changed
        ctx.case((d, src, rules) if changed else None, bucket="%s" % ("exc" if res["exc"] else "unclean-input" if not res["clean"] else "changed" if changed else "unchanged"),
                 sample={"dialect": d, "rules": rules[:20], "sql": src[:80], "apply_fixes_calls": len(res.get("events") or [])} if changed and len(ctx.samples) < 4 else None)
        if res["exc"]:
            continue
        if res.get("events"):
            traces.append((d, label, src, rules, res["events"], res.get("final_tree")))
        if not res["clean"] or res.get("fixed") is None:
            continue
        bad = [c for c in res.get("reparse_codes", []) if c in ("TMP", "LXR", "PRS")]
        if bad:
            ctx.violation("fixed-unparsable", "a cleanly parsing file has %s errors after fixing [%s, rules %s]" % (sorted(set(bad)), d, rules[:12]),
                          {"input": {"dialect": d, "label": label, "sql": src, "rules": rules}, "fixed": res["fixed"]},
                          attrs={"errors": ",".join(sorted(set(bad))), "double_sign": any(p in res["fixed"] and p not in src for p in ("--", "~~")), "lt01": "LT01" in res["codes0"]})
    ctx.coverage_extra["files_changed_by_fix"] = nchanged
    # ---------- trace validation of the adoption gate
    if coq_ok and traces:
        lits, expect = [], []
        for (d, label, src, rules, events, final) in traces[: (150 if ctx.tier == "quick" else 1500)]:
            trees, fixes = {}, {}

            def ti(t):
                return trees.setdefault(tuple(t), len(trees))
            t0 = ti(events[0][1])
            evs = []
            befores = []
            for (code, before, fx, after, valid) in events:
                befores.append(ti(before))
                evs.append("(%d, %d, %s)" % (fixes.setdefault((code, fx), len(fixes)), ti(after), coq.cbool(valid)))
            fin = ti(final) if final is not None else None
            # model: trees after each prefix of the event list
            lits.append("(%d, [%s])" % (t0, "; ".join(evs)))
            expect.append((befores, fin, d, label, src, rules))
        fn = ("fun c : nat * list (nat * nat * bool) => let '(t0, evs) := c in "
              "map (fun k => tree nat nat (replay nat nat Nat.eqb t0 (firstn k evs))) (seq 0 (S (length evs)))")
        model = coq.eval_sharded(["Model.FixLoop"], fn, lits, shard=50)
        for mv, (befores, fin, d, label, src, rules) in zip(model, expect):
            ctx.programs += 1
            # model tree before event k  must equal the real `tree` passed to apply_fixes at event k
            if list(mv[:-1]) != befores or (fin is not None and mv[-1] != fin):
                ctx.broken_obligation("trace validation Model.FixLoop.adopt vs the real fix loop (which tree is carried forward)",
                                      {"input": {"dialect": d, "label": label, "sql": src, "rules": rules}, "model_trees": list(mv), "real_before_each_call": befores, "real_final": fin})
                break
        ctx.coverage_extra["fix_loop_traces_validated"] = len(lits)
