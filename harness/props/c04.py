"""C04 — parse, lint and fix never crash."""
import contextlib

from harness import coq, corpus

LEVEL = "proof"
COQ_TARGETS = ["theories/Properties/C04.vo"]
PROPERTY_FILES = ["theories/Properties/C04.v"]
RULE = ("(1) fault-injection correspondence of the exception funnel model (Model/Funnel.v) with the real Linter: every stage (templater, lexer, "
        "parser, rule _eval) x every exception class of a fixed list x entry points parse_string / lint_string / lint_string(fix=True): the model "
        "and the code must agree on returned-vs-raised and on the violation kinds reported; (2) crash search: Linter.parse_string / lint_string / "
        "fix, the simple API and several templaters on fixtures of every dialect, token-level mutations and hand-made hostile inputs (nesting to "
        "3000, unbalanced brackets, parse-node limit, NUL / lone surrogates / astral characters, unterminated quotes). Any exception other than "
        "the documented APIParsingError is a violation. non-trivial = mutated or hostile input; distinct by (mode, dialect, sql)")
ASSUMPTIONS = ["PARTIAL: templater, regex, grammar combinators and rule bodies are opaque; that they raise only their documented exception "
               "classes is searched here, not proved", "RecursionError is treated like any other exception (it must not escape)"]
TRUSTED_BASE = ["hand model Model/Funnel.v of the try/except structure in linter.py and rules/base.py", "fault-injection wrappers in this module"]

SQL = "select a,b from t where c = 1\n"


def _exc_classes():
    from sqlfluff.core.errors import SQLFluffSkipFile, SQLLexError, SQLParseError, SQLTemplaterError
    return [("XTemplater", lambda: SQLTemplaterError("boom")), ("XSkipFile", lambda: SQLFluffSkipFile("boom")), ("XLex", lambda: SQLLexError("boom")),
            ("XParse", lambda: SQLParseError("boom")), ("XInterrupt", lambda: KeyboardInterrupt()),
            ("(XOther 0)", lambda: ValueError("boom")), ("(XOther 1)", lambda: AssertionError("boom")), ("(XOther 2)", lambda: RuntimeError("boom")),
            ("(XOther 3)", lambda: KeyError("boom")), ("(XOther 4)", lambda: IndexError("boom")), ("(XOther 5)", lambda: RecursionError("boom")),
            ("(XOther 6)", lambda: TypeError("boom"))]


@contextlib.contextmanager
def inject(stage, mk):
    """Make `stage` raise mk() on its first call."""
    from sqlfluff.core.parser import Parser
    from sqlfluff.core.parser.lexer import PyLexer
    from sqlfluff.core.templaters.base import RawTemplater
    from sqlfluff.rules.capitalisation.CP01 import Rule_CP01

    def boom(*a, **k):
        raise mk()

    def boom_gen(*a, **k):
        raise mk()
        yield  # noqa

    target, name, repl = {"templater": (RawTemplater, "process_with_variants", boom_gen), "lex": (PyLexer, "lex", boom),
                          "parse": (Parser, "parse", boom), "rule": (Rule_CP01, "_eval", boom)}[stage]
    orig = target.__dict__.get(name)
    setattr(target, name, repl)
    try:
        yield
    finally:
        if orig is None:
            delattr(target, name)
        else:
            setattr(target, name, orig)


def model_term(stage, xname):
    v = {"v_lex": "Val []", "v_parse": "Val 0", "v_rules": "[(0, [Val 1; Val 0])]"}
    templ = None
    if stage == "templater":
        templ = "Raise %s" % xname
    elif stage == "lex":
        v["v_lex"] = "Raise %s" % xname
    elif stage == "parse":
        v["v_parse"] = "Raise %s" % xname
    elif stage == "rule":
        v["v_rules"] = "[(0, [Raise %s; Val 1])]" % xname
    if templ is None:
        templ = "Val ([{| v_lex := %s; v_tokens := 5; v_parse := %s; v_rules := %s |}], 0)" % (v["v_lex"], v["v_parse"], v["v_rules"])
    return "lint_string 0 (%s)" % templ


def canon_model(v):
    # ('Val', [kinds...]) or ('Raise', x)
    if v[0] == "Raise":
        x = v[1]
        return ("raise", x if isinstance(x, str) else " ".join(str(p) for p in x) if isinstance(x, tuple) else x)
    kinds = set()
    for k in v[1]:
        k0 = k[0] if isinstance(k, tuple) else k
        if k0 in ("TMP", "LXR", "PRS", "UNEXPECTED"):
            kinds.add(k0)
    return ("val", tuple(sorted(kinds)))


def run(ctx, coq_ok):
    import logging
    logging.disable(logging.CRITICAL)
    from sqlfluff.core import FluffConfig, Linter
    excs = _exc_classes()
    xmap = {n: mk for n, mk in excs}
    scen, impl, terms = [], [], []
    for stage in ("templater", "lex", "parse", "rule"):
        for xname, mk in excs:
            for entry in ("lint", "fix", "parse"):
                if entry == "parse" and stage == "rule":
                    continue
                lnt = Linter(config=FluffConfig(overrides={"dialect": "ansi", "rules": "CP01", "templater": "raw"}))
                try:
                    with inject(stage, mk):
                        if entry == "parse":
                            p = lnt.parse_string(SQL, fname="f.sql")
                            vs = list(p.violations)
                        else:
                            lf = lnt.lint_string(SQL, fname="f.sql", fix=(entry == "fix"))
                            vs = lf.get_violations(filter_ignore=False, filter_warning=False)
                    kinds = set()
                    for v in vs:
                        if v.rule_code() in ("TMP", "LXR", "PRS"):
                            kinds.add(v.rule_code())
                        elif v.desc().startswith("Unexpected exception"):
                            kinds.add("UNEXPECTED")
                    r = ("val", tuple(sorted(kinds)))
                except BaseException as e:  # noqa
                    want = type(mk()).__name__
                    r = ("raise", xname.strip("()")) if type(e).__name__ == want else ("raise", "other:" + type(e).__name__)
                scen.append((stage, xname, entry))
                impl.append(r)
                terms.append(model_term(stage, xname))
                ctx.case(("inject", stage, xname, entry), bucket="inject:%s" % r[0],
                         sample={"stage": stage, "exception": type(mk()).__name__, "entry": entry, "real": r} if stage == "rule" and len(ctx.samples) < 2 else None)
    if coq_ok:
        model = coq.eval_terms(["Model.Funnel"], ["[" + "; ".join(terms) + "]"])[0]
        for (stage, xname, entry), mv, r in zip(scen, model, impl):
            m = canon_model(mv)
            if entry == "parse" and m[0] == "val":
                m = ("val", tuple(k for k in m[1] if k != "UNEXPECTED"))
            if m != r:
                ctx.broken_obligation("correspondence Model.Funnel.lint_string vs Linter (%s raises %s via %s)" % (stage, xname, entry),
                                      {"input": {"stage": stage, "exception": xname, "entry": entry}, "model": m, "impl": r})
                # a divergence where the real code raises and the model says it returns is a crash the user can see
                if r[0] == "raise" and m[0] == "val":
                    ctx.violation("funnel-lets-through", "a documented %s raised in stage %s escapes %s" % (xname, stage, entry),
                                  {"input": {"stage": stage, "exception": xname, "entry": entry}}, attrs={"stage": stage, "exception": xname})
        ctx.coverage_extra["funnel_scenarios"] = len(scen)

    # ---- crash search
    rng = ctx.rng
    per = 2 if ctx.tier == "quick" else 12
    muts = 2 if ctx.tier == "quick" else 6
    items = corpus.corpus(rng, per, muts, max_chars=900 if ctx.tier == "quick" else 3000)
    jobs = []
    modes = ["parse", "lint", "fix", "api_lint", "api_fix", "api_parse"]
    for k, (d, label, sql) in enumerate(items):
        mode = modes[k % len(modes)] if "~" in label else ("fix" if k % 2 else "lint")
        rules = None if k % 3 else "core"
        jobs.append((d, label, sql, mode, rules, "raw", ()))
    hostile = [
        ("deep-parens", "SELECT " + "(" * 3000 + "1" + ")" * 3000 + "\n"), ("deep-case", "SELECT " + "CASE WHEN a THEN " * 300 + "1" + " END" * 300 + "\n"),
        ("unclosed", "SELECT (((a, b FROM t\n"), ("unopened", "SELECT a)) FROM t)\n"), ("nul", "SELECT \x00 FROM t\n"), ("surrogate", "SELECT '\ud800' FROM t\n"),
        ("astral", "SELECT '\U0001F600' AS \U0001F600 FROM t\n"), ("unterminated-quote", "SELECT 'abc FROM t\n"), ("unterminated-comment", "SELECT 1 /* abc\n"),
        ("only-ws", "  \n\t\n"), ("empty", ""), ("only-comment", "-- hello"), ("semicolons", ";;;;\n"), ("bom", "﻿SELECT 1\n"),
        ("long-list", "SELECT " + ", ".join("c%d" % i for i in range(400)) + " FROM t\n"), ("crlf", "SELECT a\r\nFROM t\r\n"), ("cr-only", "SELECT a\rFROM t\r"),
        ("optionally-delimited", "ALTER TABLE t ENGINE=InnoDB, AUTO_INCREMENT=5 COMMENT='x';\n"), ("operators", "SELECT - - 5, ~ ~ 5, a - -b FROM t\n"),
        ("noqa-everything", "SELECT a  from b -- noqa\n-- noqa: disable=all\nselect 1 -- noqa: enable=all\n"),
    ]
    hd = corpus.dialects() if ctx.tier == "thorough" else ["ansi", "mysql", "tsql", "snowflake"]
    for d in hd:
        for name, sql in hostile:
            for mode in (("lint", "fix", "parse") if ctx.tier == "thorough" else ("fix",)):
                jobs.append((d, "hostile:" + name, sql, mode, None, "raw", ()))
    # parse node limit and depth limit
    for mode in ("lint", "fix", "parse"):
        jobs.append(("ansi", "hostile:node-limit", "SELECT " + ", ".join("c%d" % i for i in range(200)) + " FROM t\n", mode, None, "raw", (("max_parse_nodes", 50),)))
    # templaters
    tsql = ["SELECT {{ a }} FROM {% if x %}t{% else %}u{% endif %}\n", "SELECT {{ undefined_var }} FROM t\n", "{% for i in [1,2] %}SELECT {{i}};\n{% endfor %}",
            "SELECT {% if %} 1\n", "SELECT {{ 1 + }} FROM t\n", "SELECT {a} FROM {b.c}\n", "SELECT :x, ?, $1, %s FROM t WHERE a = :y\n", "{# c #}\n", "{% macro m() %}x{% endmacro %}SELECT {{ m() }}\n",
            "SELECT {{ 1 // 0 }} FROM t\n", "SELECT {{ {}.pop('k') }} FROM t\n", "SELECT {{ [][3] }} FROM t\n", "SELECT {{ none.x.y }}\n", "SELECT {{ 'a' + 1 }}\n",
            "SELECT {{ a.b.c() }}\n", "{% for k, v in a %}x{% endfor %}\n", "SELECT {{ range(10**9) | list | length }}\n"[:0] or "SELECT {{ '%d' % 'x' }}\n"]
    for tpl in ("jinja", "python", "placeholder"):
        for s in tsql:
            for mode in ("lint", "fix"):
                extra = (("ignore", "templating"),) if tpl == "jinja" and "undefined" in s else ()
                jobs.append(("ansi", "templated:%s" % tpl, s, mode, "core", tpl, extra))
    for (d, label, sql, mode, rules, tpl, extra), st, res in corpus.pmap("harness.crashcheck", "crash_case", jobs):
        if st != "ok":
            ctx.broken_obligation("harness worker crashed on %s/%s" % (d, label), res)
            continue
        nontriv = "~" in label or label.startswith("hostile") or label.startswith("templated")
        ctx.case((mode, d, sql, rules, tpl) if nontriv else None, bucket="%s:%s" % (mode, "crash" if not res["ok"] else "ok"),
                 sample={"dialect": d, "mode": mode, "label": label, "sql": sql[:80]} if label.startswith("hostile") and len(ctx.samples) < 5 else None)
        if not res["ok"]:
            e = res["exc"]
            ctx.violation("crash", "%s raises %s (%s) in %s [dialect %s, %s]" % (mode, e["exc_type"], e["msg"], e["frame"], d, label),
                          {"input": {"dialect": d, "label": label, "sql": sql, "mode": mode, "rules": rules, "templater": tpl, "extra": list(extra)}, "trace": e["trace"]},
                          attrs={"exc_type": e["exc_type"], "frame": e["frame"]})
    ctx.coverage_extra["crash_search_cases"] = len(jobs)
