"""C11 — fixing preserves all untouched text byte-for-byte."""
import os
import shutil
import tempfile

from harness import corpus

LEVEL = "proof"
COQ_TARGETS = ["theories/Properties/C11.vo"]
PROPERTY_FILES = ["theories/Properties/C11.v"]
RULE = ("(1) text level: real fixes (layout / core / all rules) of fixtures of every dialect, mutations and generated templates; the fixed string must equal "
        "the source with exactly the reported patches substituted (independent splice oracle: patches ascending and disjoint, everything outside "
        "copied verbatim), which is the conclusion of C30_apply_exact / C11_untouched_ranges_survive observed on the implementation; (2) byte level: "
        "files written by `Linter.lint_paths(fix=True, apply_fixes=True)` and the CLI: encodings utf-8 / utf-8-sig / latin-1 / autodetect, CRLF, "
        "undecodable bytes in comments and strings on lines no fix touches -- every untouched line must be byte-identical (after CRLF->LF), BOM "
        "kept, and a file without fixable violations keeps its bytes and mtime. non-trivial = a run that changed the file; distinct by input")
ASSUMPTIONS = ["PARTIAL: codecs, chardet and the rule bodies are not modelled", "lines are the unit of 'untouched' in the byte-level part (the fixable violation is confined to line 1)"]
TRUSTED_BASE = ["Model/Patch.v (C30 correspondence)", "the splice oracle in this module"]


def explained(src, fixed, patches):
    """Is `fixed` the source with SOME ascending, disjoint subset of the reported patches substituted for exactly their own ranges
    (every other patch dropped entirely, everything outside copied verbatim)?  Depth-first over apply/drop with prefix pruning."""
    import sys
    sys.setrecursionlimit(10000)
    seen = set()

    def go(i, spos, fpos):
        if (i, spos, fpos) in seen:
            return False
        seen.add((i, spos, fpos))
        if i == len(patches):
            return src[spos:] == fixed[fpos:]
        a, b, raw, _c = patches[i]
        # apply patch i (only if it starts at or after the current source position and the gap is copied verbatim)
        if a >= spos and b >= a:
            gap = src[spos:a]
            if fixed.startswith(gap, fpos) and fixed.startswith(raw, fpos + len(gap)):
                if go(i + 1, b, fpos + len(gap) + len(raw)):
                    return True
        return go(i + 1, spos, fpos)  # drop patch i entirely
    return go(0, 0, 0)


def byte_cases():
    """(name, bytes, cli_encoding or None, expect_line1_fixed)"""
    line1 = b"SELECT a  from t;\n"
    cases = []
    tails = {
        "ascii": b"-- plain comment\nSELECT 'x' FROM u\n",
        "utf8": "-- café → \U0001F600\nSELECT 'naïve' FROM u\n".encode("utf-8"),
        "latin1": "-- café\nSELECT 'naïve' FROM u\n".encode("latin-1"),
        "undecodable": b"-- caf\xe9\xff bytes\nSELECT 'x\xfe' FROM u\n",
    }
    cases.append(("ascii-auto", line1 + tails["ascii"], None))
    cases.append(("utf8-auto", line1 + tails["utf8"], None))
    cases.append(("utf8-explicit", line1 + tails["utf8"], "utf-8"))
    cases.append(("utf8-bom-auto", b"\xef\xbb\xbf" + line1 + tails["utf8"], None))
    cases.append(("utf8-sig-explicit", b"\xef\xbb\xbf" + line1 + tails["utf8"], "utf-8-sig"))
    cases.append(("latin1-explicit", line1 + tails["latin1"], "latin-1"))
    cases.append(("crlf-utf8", (line1 + tails["utf8"]).replace(b"\n", b"\r\n"), "utf-8"))
    cases.append(("undecodable-utf8-explicit", line1 + tails["undecodable"], "utf-8"))
    cases.append(("undecodable-auto", line1 + tails["undecodable"], None))
    cases.append(("undecodable-ascii-explicit", line1 + tails["utf8"], "ascii"))
    big = line1 + b"-- filler line\n" * 700 + tails["utf8"]
    cases.append(("utf8-late-nonascii-10k", big, None))
    # one path, rewritten between runs in one process (an editor integration / API user): the verdict about a file must come from its current bytes
    for k, t in enumerate(["ascii", "utf8", "ascii", "latin1", "utf8"]):
        cases.append(("history@%d-%s-auto" % (k, t), line1 + tails[t], None if t != "latin1" else "latin-1"))
    cases.append(("nofix-utf8", b"SELECT a FROM t;\n" + tails["utf8"], "utf-8"))
    cases.append(("nofix-undecodable", b"SELECT a FROM t;\n" + tails["undecodable"], "utf-8"))
    return cases


def run_bytes(ctx):
    from sqlfluff.core import FluffConfig, Linter
    d = tempfile.mkdtemp(prefix="verif-c11-", dir=os.environ.get("TMPDIR") or "/var/tmp")
    try:
        for name, data, enc in byte_cases():
            p = os.path.join(d, name.split("@")[0] + ".sql")
            with open(p, "wb") as f:
                f.write(data)
            os.utime(p, (1000000000, 1000000000))
            over = {"dialect": "ansi", "rules": "LT01,CP01", "templater": "raw"}
            if enc:
                over["encoding"] = enc
            lnt = Linter(config=FluffConfig(overrides=over))
            try:
                res = lnt.lint_paths((p,), fix=True, apply_fixes=True)
                nviol = res.num_violations()
            except Exception as e:  # noqa
                ctx.violation("fix-file-raises", "fixing a file raises %s: %s [%s]" % (type(e).__name__, str(e)[:100], name), {"input": {"case": name, "bytes": data[:200], "encoding": enc}},
                              attrs={"case": name, "exc": type(e).__name__})
                continue
            with open(p, "rb") as f:
                after = f.read()
            nontriv = after != data
            ctx.case(("bytes", name), bucket="bytes:%s" % ("changed" if nontriv else "unchanged"),
                     sample={"case": name, "encoding": enc, "before": repr(data[:60]), "after": repr(after[:60])} if nontriv and len(ctx.samples) < 5 else None)
            inp = {"case": name, "encoding": enc, "before": data, "after": after}
            if name.startswith("nofix"):
                if after != data or os.stat(p).st_mtime != 1000000000:
                    ctx.violation("rewritten-without-fix", "a file with no applicable fix was rewritten [%s]" % name, {"input": inp}, attrs={"case": name})
                continue
            b_lines = data.replace(b"\r\n", b"\n").split(b"\n")
            a_lines = after.replace(b"\r\n", b"\n").split(b"\n")
            bom = data.startswith(b"\xef\xbb\xbf")
            if bom != after.startswith(b"\xef\xbb\xbf"):
                ctx.violation("bom-changed", "the UTF-8 BOM was %s by fix [%s]" % ("dropped" if bom else "added", name), {"input": inp}, attrs={"case": name})
            if len(a_lines) != len(b_lines) or a_lines[1:] != b_lines[1:]:
                bad = next((i for i in range(1, min(len(a_lines), len(b_lines))) if a_lines[i] != b_lines[i]), -1)
                ctx.violation("untouched-bytes-changed", "a line no fix touches was rewritten: %r -> %r [%s]" % (
                    b_lines[bad][:40] if bad >= 0 else b"", a_lines[bad][:40] if bad >= 0 else b"", name), {"input": inp},
                    attrs={"case": name, "undecodable": "undecodable" in name, "explicit_encoding": enc})
            if after == data and nviol:
                ctx.count("bytes:fixable-but-unchanged")
    finally:
        shutil.rmtree(d, ignore_errors=True)


def run(ctx, coq_ok):
    rng = ctx.rng
    per = 2 if ctx.tier == "quick" else 12
    jobs = []
    rulesets = ["layout", "core", "all", "capitalisation"]
    for k, (d, label, sql) in enumerate(corpus.corpus(rng, per, 1, max_chars=800 if ctx.tier == "quick" else 3000)):
        jobs.append((d, "raw", None, label, sql, rulesets[k % 4], (), ("patches",)))
    for i in range(40 if ctx.tier == "quick" else 400):
        src = corpus.gen_jinja(rng).replace("SELECT\n    ", "select  ", 1)
        jobs.append(("ansi", "jinja", i % 2, "jinja-gen", src, rulesets[i % 3], (), ("patches",)))
    nchanged = 0
    for (d, tpl, style, label, src, rules, extra, want), st, res in corpus.pmap("harness.fixcheck", "fix_case", jobs):
        if st != "ok":
            ctx.broken_obligation("harness worker crashed on %s" % label, res)
            continue
        changed = bool(res.get("changed"))
        nchanged += changed
        ctx.case((d, tpl, src, rules) if changed else None, bucket="text:%s" % ("exc" if res["exc"] else "changed" if changed else "unchanged"),
                 sample={"dialect": d, "rules": rules, "patches": (res.get("patches") or [])[:4]} if changed and len(ctx.samples) < 3 else None)
        inp = {"dialect": d, "templater": tpl, "style": style, "label": label, "source": src, "rules": rules}
        if res["exc"] or res.get("fixed") is None or res.get("patches") is None:
            continue
        if not explained(res["src"], res["fixed"], res["patches"]):
            ctx.violation("fixed-differs-outside-patches", "the fixed text is not the source with a disjoint subset of the reported patches applied to exactly their ranges [%s, %s]" % (d, tpl),
                          {"input": inp, "patches": res["patches"], "fixed": res["fixed"]}, attrs={"templater": tpl})
        if not res["patches"] and res["fixed"] != res["src"]:
            ctx.violation("changed-without-patch", "text changed although no patch was produced", {"input": inp, "fixed": res["fixed"]}, attrs={"templater": tpl})
    run_bytes(ctx)
    ctx.coverage_extra["files_changed_by_fix"] = nchanged
    ctx.coverage_extra["fix_runs"] = len(jobs)
