"""C07 — template source maps are consistent for every templater and variant."""
from harness import coq, corpus

LEVEL = "proof"
COQ_TARGETS = ["theories/Properties/C07.vo"]
PROPERTY_FILES = ["theories/Properties/C07.v"]
RULE = ("(1) correspondence of Model/TemplatedFile.v with the real classes: ctor_check vs TemplatedFile.__init__ on seeded random raw/file slice lists "
        "(valid, gapped, overlapping, short, long) compared by outcome class; record_trace vs JinjaTracer.record_trace on random call sequences over "
        "synthetic raw slicings; (2) monitor: every rendering variant produced by the real jinja templater (generated templates: if/elif/else, for, set, "
        "macro, comments, whitespace control; two contexts; unreached branches give extra variants), python templater (generated format strings) and "
        "placeholder templater (every known style): raw slices tile the source with the right text, rendered slices tile the rendered SQL, source "
        "slices inside the file, non-empty literal slices map to identical text. non-trivial = source with template syntax; distinct by source")
ASSUMPTIONS = ["PARTIAL: Jinja, the analyzer, the python slicer and the variant rectifier are not modelled (validated per variant)",
               "the constructor is the only way TemplatedFile objects come into existence"]
TRUSTED_BASE = ["hand model Model/TemplatedFile.v", "harness/lexcheck.py check_tf oracle"]


def gen_slices(rng):
    nsrc = rng.randrange(0, 12)
    raws, pos = [], 0
    while pos < nsrc:
        ln = rng.randrange(1, 5)
        ln = min(ln, nsrc - pos)
        raws.append([pos, ln])
        pos += ln
    if raws and rng.random() < 0.25:
        i = rng.randrange(len(raws))
        raws[i][rng.randrange(2)] += rng.choice([-1, 1])
        raws[i][1] = max(0, raws[i][1])
        raws[i][0] = max(0, raws[i][0])
    ntpl = rng.randrange(0, 12)
    fs, pos = [], 0
    while pos < ntpl or (not fs and rng.random() < 0.7):
        ln = min(rng.randrange(0, 5), ntpl - pos) if pos < ntpl else 0
        a = rng.randrange(0, nsrc + 1)
        b = rng.randrange(a, nsrc + 1)
        fs.append([[a, b], [pos, pos + ln]])
        pos += ln
        if ln == 0 and rng.random() < 0.5 and pos >= ntpl:
            break
    if fs and rng.random() < 0.3:
        i = rng.randrange(len(fs))
        fs[i][1][rng.randrange(2)] += rng.choice([-1, 1])
        fs[i][1][0] = max(0, fs[i][1][0])
        fs[i][1][1] = max(fs[i][1][0], fs[i][1][1])
    return nsrc, ntpl, raws, fs


def real_ctor(nsrc, ntpl, raws, fs):
    from sqlfluff.core.errors import SQLFluffSkipFile
    from sqlfluff.core.templaters.base import RawFileSlice, TemplatedFile, TemplatedFileSlice
    src = "s" * nsrc
    try:
        TemplatedFile(source_str=src, fname="f.sql", templated_str="t" * ntpl,
                      sliced_file=[TemplatedFileSlice("templated", slice(a, b), slice(c, d)) for (a, b), (c, d) in fs],
                      raw_sliced=[RawFileSlice("r" * ln, "literal", idx) for idx, ln in raws])
        return "Ok"
    except AssertionError:
        return "EAssert"
    except SQLFluffSkipFile:
        return "ESkipFile"
    except ValueError:
        return "EValue"


def run(ctx, coq_ok):
    import logging
    logging.disable(logging.CRITICAL)
    rng = ctx.rng
    # ---------- ctor correspondence
    n = 800 if ctx.tier == "quick" else 8000
    cases, impl, lits = [], [], []
    for _ in range(n):
        c = gen_slices(rng)
        r = real_ctor(*c)
        cases.append(c)
        impl.append(r)
        nsrc, ntpl, raws, fs = c
        lits.append("(%d, %d, %s, %s)" % (nsrc, ntpl, "[" + ";".join("(%d,%d)" % tuple(x) for x in raws) + "]",
                                         "[" + ";".join("((%d,%d),(%d,%d))" % (a, b, c2, d) for (a, b), (c2, d) in fs) + "]"))
        ctx.case(("ctor", repr(c)) if r != "Ok" or len(fs) > 1 else None, bucket="ctor:%s" % r,
                 sample={"nsrc": nsrc, "ntpl": ntpl, "raw(idx,len)": raws, "file_slices": fs, "real": r} if r == "ESkipFile" and len(ctx.samples) < 1 else None)
    # ---------- tracer correspondence
    from sqlfluff.core.templaters.base import RawFileSlice
    from sqlfluff.core.templaters.slicers.tracer import JinjaTracer
    tcases, timpl, tlits = [], [], []
    for _ in range(150 if ctx.tier == "quick" else 1500):
        k = rng.randrange(1, 6)
        lens = [rng.randrange(1, 4) for _ in range(k)]
        starts, pos = [], 0
        for ln in lens:
            starts.append(pos)
            pos += ln
        nsrc = pos
        raw_sliced = [RawFileSlice("x" * ln, "literal", st) for st, ln in zip(starts, lens)]
        tr = JinjaTracer("x" * nsrc, raw_sliced, {}, [], lambda s: s)
        calls = [(rng.randrange(0, 4), rng.randrange(0, k)) for _ in range(rng.randrange(0, 7))]
        for ln, idx in calls:
            tr.record_trace(ln, idx)
        got = [[[f.source_slice.start, f.source_slice.stop], [f.templated_slice.start, f.templated_slice.stop]] for f in tr.sliced_file]
        tcases.append((starts, nsrc, calls))
        timpl.append((tr.source_idx, got))
        tlits.append("run_trace %s %d %s" % (coq.cnats(starts), nsrc, "[" + ";".join("(%d,%d)" % c for c in calls) + "]" if calls else "(@nil (nat*nat))"))
        ctx.case(("trace", repr(tcases[-1])) if len(calls) > 1 else None, bucket="tracer")
    if coq_ok:
        model = coq.eval_sharded(["Model.TemplatedFile"], "fun c : nat * nat * list rawslice * list fslice => let '(a, b, r, f) := c in ctor_check a b r f", lits, shard=400)
        for c, mv, r in zip(cases, model, impl):
            m = "Ok" if mv[0] == "Ok" else (mv[1][0] if isinstance(mv[1], tuple) else mv[1])
            if m != r:
                ctx.broken_obligation("correspondence Model.TemplatedFile.ctor_check vs TemplatedFile.__init__", {"input": c, "model": m, "impl": r})
                break
        tm = coq.eval_sharded(["Model.TemplatedFile"], "fun x : tstate => x", tlits, shard=100)
        for c, mv, r in zip(tcases, tm, timpl):
            m = (mv[0], [[[x[0], x[1]], list(x[2])] for x in mv[1]])
            if m != (r[0], r[1]):
                ctx.broken_obligation("correspondence Model.TemplatedFile.record_trace vs JinjaTracer.record_trace", {"input": c, "model": m, "impl": r})
                break
        ctx.coverage_extra["model_vs_impl_cases"] = len(lits) + len(tlits)

    # ---------- monitor
    jobs = []
    nt = 120 if ctx.tier == "quick" else 1500
    for i in range(nt):
        jobs.append(("ansi", "jinja", i % 2, "jinja-gen", corpus.gen_jinja(rng)))
    fixed = ["SELECT {% for c in ['a','b'] %}{% if c == 'a' %}x{% else %}y{% endif %}_{{ c }},\n    {% endfor %} 1 FROM t\n",
             "{% if flag %}SELECT 1{% else %}SELECT 2{% endif %}\n{% for i in items %}UNION ALL SELECT {{ i }}\n{% endfor %}",
             "SELECT a {#- c -#} , b FROM {{ tbl }} {%- if other %} WHERE 1=1 {%- endif %}\n",
             # loops that revisit source before an unreached branch (the variant's slices are not in source order)
             "SELECT {% for c in ['a','b','c'] %}x_{{ c }} {% if c == 'zz' %}Y{% else %}N{% endif %},\n{% endfor %} 1 FROM t\n",
             "{% for i in range(3) %}SELECT col_{{ i }}  {% if i > 5 %}, extra_long_column_name{% endif %} FROM t{{ i }};\n{% endfor %}",
             "SELECT 1\n{% for t in items %}UNION ALL SELECT {{ t }} {% if undefined_flag %}, 2{% elif other %}, 3{% endif %}\n{% endfor %}",
             "{% for a in ['p','q'] %}{% for b in [1,2] %}{{ a }}{{ b }} {% if b == 9 %}never{% endif %}, {% endfor %}{% endfor %} z\n"]
    for i, s in enumerate(fixed):
        for c in (0, 1):
            jobs.append(("ansi", "jinja", c, "jinja-fixed-%d" % i, s))
    for i in range(nt // 3):
        jobs.append(("ansi", "python", None, "pyformat-gen", corpus.gen_pyformat(rng)))
    for style in corpus.PLACEHOLDER_STYLES:
        for _ in range(3 if ctx.tier == "quick" else 20):
            jobs.append(("ansi", "placeholder", style, "placeholder-" + style, corpus.gen_placeholder(rng, style)))
    nvar = 0
    for (d, tpl, style, label, src), st, res in corpus.pmap("harness.lexcheck", "tf_case", jobs):
        if st != "ok":
            ctx.broken_obligation("harness worker crashed on %s" % label, res)
            continue
        nvar += res["variants"]
        ctx.programs += res["variants"]
        ctx.case((tpl, style, src), bucket="%s:variants=%d%s" % (tpl, min(res["variants"], 3), ":loop" if res["loops"] else ""),
                 sample={"templater": tpl, "source": src[:150], "variants": res["variants"], "slices": res["nslices"]} if res["variants"] > 1 and len(ctx.samples) < 5 else None)
        inp = {"dialect": d, "templater": tpl, "style": style, "label": label, "source": src}
        if res["exc"]:
            e = res["exc"]
            ctx.violation("render-raises", "rendering raises %s (%s) in %s [%s templater]" % (e["exc_type"], e["msg"], e["frame"], tpl), {"input": inp, "trace": e["trace"]},
                          attrs={"exc_type": e["exc_type"], "frame": e["frame"]})
        for key, what, vi in res["probs"]:
            ctx.violation("tf-" + key, "%s [%s templater, variant %d]" % (what, tpl, vi), {"input": inp, "variant": vi},
                          attrs={"kind": key, "templater": tpl, "variant": "primary" if vi == 0 else "alternate", "loop": bool(res["loops"])})
    ctx.coverage_extra["variants_checked"] = nvar
