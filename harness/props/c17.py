"""C17 — fix and format are idempotent."""
from harness import corpus, fixjobs

LEVEL = "proof"
COQ_TARGETS = ["theories/Properties/C17.vo"]
PROPERTY_FILES = ["theories/Properties/C17.v"]
RULE = ("fix is run twice with the same configuration (rule sets: the `format` rule list, the layout group, all rules, core) on inputs that parse cleanly: "
        "fixtures of every dialect, mutations that stay parsable, operator adjacency and comment-position cases; the second run's output must equal "
        "the first's. non-trivial = first run changed the file; distinct by (dialect, sql, rules)")
ASSUMPTIONS = ["PARTIAL: rules are an oracle in the model; idempotence of the real rule set is validated per run"]
TRUSTED_BASE = ["hand model Model/FixLoop.v (trace-validated under C13)", "harness/fixcheck.py"]
FORMAT_RULES = "LT01,LT02,LT03,LT04,LT05,LT06,LT07,LT08,LT09,LT10,LT11,LT12,LT13,LT14,LT15,CP01,CP02,CP03,CP04,CP05"


def run(ctx, coq_ok):
    js = fixjobs.jobs(ctx, [FORMAT_RULES, "layout", "all", "core", "convention", "structure", "CV11,CP01", "ambiguous,aliasing,references"], ("second",))
    js += fixjobs.boundary_jobs(ctx, ["all", "core"] if ctx.tier == "quick" else ["all", "core", FORMAT_RULES + ",AL01,AL02,CV01,CP03"], ("second",))
    nchanged = 0
    for (d, tpl, style, label, src, rules, extra, want), st, res in corpus.pmap("harness.fixcheck", "fix_case", js):
        if st != "ok":
            ctx.broken_obligation("harness worker crashed on %s" % label, res)
            continue
        changed = bool(res.get("changed"))
        nchanged += changed
        ctx.case((d, src, rules) if changed else None, bucket="%s" % ("exc" if res["exc"] else "unclean-input" if not res["clean"] else "changed" if changed else "unchanged"),
                 sample={"dialect": d, "rules": rules[:20], "sql": src[:80], "fixed": (res.get("fixed") or "")[:80]} if changed and len(ctx.samples) < 3 else None)
        if res["exc"] or not res["clean"] or res.get("fixed") is None or "fixed2" not in res:
            continue
        inp = {"dialect": d, "label": label, "sql": src, "rules": rules}
        f1, f2 = res["fixed"], res["fixed2"]
        if f2 is None:
            ctx.violation("second-run-no-tree", "the output of fix no longer parses, so a second run cannot fix it [%s]" % d, {"input": inp, "fixed": f1},
                          attrs={"double_sign": any(p in f1 and p not in src for p in ("--", "~~"))})
        elif f2 != f1:
            i = next((k for k in range(min(len(f1), len(f2))) if f1[k] != f2[k]), min(len(f1), len(f2)))
            ctx.violation("not-idempotent", "a second fix run changes the output again: ...%r -> ...%r [%s, rules %s]" % (f1[max(0, i - 15):i + 25], f2[max(0, i - 15):i + 25], d, rules[:14]),
                          {"input": inp, "fixed": f1, "fixed_again": f2}, attrs={"dialect": d, "double_sign": any(p in f1 and p not in src for p in ("--", "~~")), "case_only_diff": f1.lower() == f2.lower(), "cv11": "CV11" in res["codes0"]})
    ctx.coverage_extra["files_changed_by_fix"] = nchanged
