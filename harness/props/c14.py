"""C14 — layout fixes change only whitespace."""
import re
from collections import Counter

from harness import coq, corpus, fixjobs

LEVEL = "proof"
COQ_TARGETS = ["theories/Properties/C14.vo"]
PROPERTY_FILES = ["theories/Properties/C14.v"]
RULE = ("the layout rule group under several layout configurations (leading/trailing commas and operators, tab / 2-space indent units, max_line_length "
        "40/120, indented joins/ctes, template_blocks_indent off) on inputs that parse cleanly: fixtures of every dialect, mutations that stay parsable, "
        "adjacency cases. Compared: the sequence of non-whitespace non-comment token texts of the fixed tree vs the original parse, and the multiset of "
        "comment texts; and on the TEXT: fixed text with all spaces/tabs/newlines removed outside comments... (token-level only). The comparator is "
        "cross-evaluated in Coq (ws_only_b, proved correct) on a sample. non-trivial = run that changed the file; distinct by (dialect, sql, config)")
ASSUMPTIONS = ["PARTIAL: the reflow engine and layout rules are not modelled; validated per run", "inputs with TMP/PRS/LXR errors are skipped (fix is refused for them, C18)"]
TRUSTED_BASE = ["Model/TokenRel.v ws_only_b (proved correct)", "harness/fixcheck.py token extraction"]

CONFIGS = [
    (),
    ((("layout", "type", "comma", "line_position"), "leading"),),
    ((("layout", "type", "binary_operator", "line_position"), "trailing"), (("indentation", "indent_unit"), "tab")),
    ((("indentation", "tab_space_size"), 2), ("max_line_length", 40)),
    ((("indentation", "indented_joins"), True), (("indentation", "indented_ctes"), True), ("max_line_length", 120)),
    ((("indentation", "template_blocks_indent"), False), (("layout", "type", "comparison_operator", "line_position"), "leading")),
    ((("indentation", "implicit_indents"), "require"), (("layout", "type", "binary_operator", "line_position"), "leading:attached")),
]


def split(leaves):
    codes = [r for (r, t, is_code, is_meta, is_comment, is_ws) in leaves if not is_meta and not is_ws and not is_comment and r != ""]
    comments = [r for (r, t, is_code, is_meta, is_comment, is_ws) in leaves if is_comment]
    return codes, comments


def merged(m0, m2):
    """True when every new comment is two or more consecutive old inline comments joined by spaces (one swallowed the next)."""
    new = list((Counter(m2) - Counter(m0)).elements())
    gone = list((Counter(m0) - Counter(m2)).elements())
    if not new:
        return False
    for n in new:
        parts = [g for g in gone if g in n]
        if len(parts) < 2 or not n.startswith("--"):
            return False
    return True


def tk_lit(leaves):
    items = []
    for (r, t, is_code, is_meta, is_comment, is_ws) in leaves:
        if is_meta or r == "":
            continue
        items.append("%s %s" % ("Comment" if is_comment else "Ws" if is_ws else "Code", coq.ctext(r)))
    return "[" + "; ".join(items) + "]" if items else "(@nil tk)"


def run(ctx, coq_ok):
    js = fixjobs.jobs(ctx, ["layout"], ("leaves", "fixedleaves"), extras=CONFIGS)
    js += fixjobs.comment_jobs(ctx, "layout", ("leaves", "fixedleaves"), CONFIGS)
    # statements with comments next to operators, brackets, keywords and commas: under every configuration
    seen = set((j[0], j[4], j[6]) for j in js)
    for d, label, sql in fixjobs.HOSTILE:
        if "--" in sql or "/*" in sql or "#" in sql:
            for cfg in CONFIGS:
                if (d, sql, cfg) not in seen:
                    js.append((d, "raw", None, "hostile:" + label, sql, "layout", cfg, ("leaves", "fixedleaves")))
    nchanged = 0
    sample_pairs = []
    for (d, tpl, style, label, src, rules, extra, want), st, res in corpus.pmap("harness.fixcheck", "fix_case", js):
        if st != "ok":
            ctx.broken_obligation("harness worker crashed on %s" % label, res)
            continue
        changed = bool(res.get("changed"))
        nchanged += changed
        ctx.case((d, src, repr(extra)) if changed else None, bucket="%s" % ("exc" if res["exc"] else "unclean-input" if not res["clean"] else "changed" if changed else "unchanged"),
                 sample={"dialect": d, "config": [list(map(str, e)) for e in extra], "sql": src[:70], "fixed": (res.get("fixed") or "")[:70]} if changed and extra and len(ctx.samples) < 4 else None)
        if res["exc"] or not res["clean"] or res.get("leaves") is None or res.get("leaves0") is None:
            continue
        c0, m0 = split(res["leaves0"])
        c1, m1 = split(res["leaves"])
        ok = (c0 == c1 and Counter(m0) == Counter(m1))
        inp = {"dialect": d, "label": label, "sql": src, "config": [list(map(str, e)) for e in extra]}
        if c0 != c1:
            i = next((k for k in range(min(len(c0), len(c1))) if c0[k] != c1[k]), min(len(c0), len(c1)))
            ctx.violation("code-tokens-changed", "layout fix changed code tokens: %r -> %r [%s]" % (c0[i:i + 3], c1[i:i + 3], d), {"input": inp, "fixed": res["fixed"]},
                          attrs={"dialect": d})
        elif Counter(m0) != Counter(m1):
            ctx.violation("comments-changed", "layout fix changed the comments: %r -> %r [%s]" % (sorted((Counter(m0) - Counter(m1)).elements())[:2], sorted((Counter(m1) - Counter(m0)).elements())[:2], d),
                          {"input": inp, "fixed": res["fixed"]}, attrs={"dialect": d})
        # the same comparison on a fresh parse of the fixed TEXT: the fixed tree can keep two tokens apart that the written text glues together
        lf_ = res.get("leaves_fixed")
        if ok and lf_ is not None:
            c2, m2 = split(lf_)
            if c0 != c2:
                i = next((k for k in range(min(len(c0), len(c2))) if c0[k] != c2[k]), min(len(c0), len(c2)))
                ctx.violation("code-tokens-changed-in-text", "the text written by a layout fix reads back with different code tokens: %r -> %r [%s]" % (c0[i:i + 3], c2[i:i + 3], d),
                              {"input": inp, "fixed": res["fixed"]},
                              attrs={"dialect": d, "label": label.split(":")[0], "operator_glued_to_comment": bool(re.search(r"[-+*/<>=|]--|[+*/<>=|]/\*", res["fixed"])),
                                     "comment_unspaced_in_source": bool(re.search(r"[^\s-]--|[^\s/]/\*", src))})
            elif Counter(m0) != Counter(m2):
                ctx.violation("comments-changed-in-text", "the text written by a layout fix reads back with different comments: %r -> %r [%s]" % (
                    sorted((Counter(m0) - Counter(m2)).elements())[:2], sorted((Counter(m2) - Counter(m0)).elements())[:2], d), {"input": inp, "fixed": res["fixed"]},
                    attrs={"dialect": d, "merged": merged(m0, m2), "operator_attached": any(str(v).endswith(":attached") for _k, v in extra)})
        elif ok and changed:
            ctx.count("fixed-text-does-not-parse")
        if changed and len(sample_pairs) < (40 if ctx.tier == "quick" else 300) and len(res["leaves"]) < 200:
            sample_pairs.append((tk_lit(res["leaves0"]), tk_lit(res["leaves"]), ok, inp))
    if coq_ok and sample_pairs:
        vals = coq.eval_sharded(["Model.TokenRel"], "fun p : list tk * list tk => ws_only_b (fst p) (snd p)", ["(%s, %s)" % (a, b) for a, b, _o, _i in sample_pairs], shard=10)
        for v, (_a, _b, ok, inp) in zip(vals, sample_pairs):
            if v != ok:
                ctx.broken_obligation("the Python comparator disagrees with the verified checker ws_only_b", {"input": inp, "coq": v, "python": ok})
                break
        ctx.coverage_extra["pairs_checked_in_coq"] = len(sample_pairs)
    ctx.coverage_extra["files_changed_by_fix"] = nchanged
