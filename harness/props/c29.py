"""C29 — dialect definitions are complete (every dialect loads, every reachable grammar reference resolves, the lexer accepts any character)."""
from harness import coq, gen_dialects

LEVEL = "proof"
GENERATORS = [gen_dialects.generate]
COQ_TARGETS = ["theories/Properties/C29.vo", "generated/Gen_dialects_all.vo"]
PROPERTY_FILES = ["theories/Properties/C29.v", "generated/Gen_dialects_all.v"]
RULE = ("complete enumeration: every bundled dialect is imported and expanded, its whole library is walked generically (every attribute holding a "
        "Matchable / segment class / bracket set; fail-closed on unknown containers) and translated to a reference graph + lexer matcher table in "
        "coq/generated; kernel-checked certificates (vm_compute) decide closure under dialect.ref() and the presence of the progress-guaranteeing "
        "lexer matchers. Lexer monitor: every code point 0..0x2FFF + sampled astral/surrogate code points singly and in random strings, per dialect. "
        "non-trivial = a (dialect, reachable name) pair or a (dialect, string) lex; distinct by that pair")
ASSUMPTIONS = ["translator harness/gen_dialects.py (cross-checked: every emitted name resolves through the real dialect.ref() iff it has a graph entry)",
               "the three regex templates mean what Model/LexTable.v says (checked here against the real `regex` module on every code point)",
               "parse-time lookups go through dialect.ref() / Ref.keyword only (segment classes that call dialect.ref with computed names are not seen)"]
TRUSTED_BASE = ["harness/gen_dialects.py translator + Base/Decode.v decoder", "hand models Model/DialectGraph.v, Model/LexTable.v"]


def regex_sets():
    """For the real regex module: code points matched by the whitespace template, code points NOT matched (non-empty) by the last resort."""
    import regex
    from sqlfluff.core.parser.lexer import PyLexer
    lx = PyLexer(dialect="ansi")
    ws = [m for m in lx.lexer_matchers if m.name == "whitespace"][0]
    nl = [m for m in lx.lexer_matchers if m.name == "newline"][0]
    last = lx.last_resort_lexer
    ws_true, last_false = [], []
    for cp in range(0x110000):
        c = chr(cp)
        m = ws._compiled_regex.match(c)
        if m and m.end() > 0:
            ws_true.append(cp)
        m = last._compiled_regex.match(c)
        if not (m and m.end() > 0):
            last_false.append(cp)
    nl_lens = {}
    for s in ["\n", "\r\n", "\r", "\rx", "x\n", "\n\n", "\r\n\n", "\x0b", "\x85", " "]:
        m = nl._compiled_regex.match(s)
        nl_lens[s] = m.end() if m else 0
    return ws_true, last_false, nl_lens


def run(ctx, coq_ok):
    dump = getattr(ctx, "dialect_dump", None)
    failures = getattr(ctx, "dialect_failures", None)
    if dump is None:
        dump, failures = gen_dialects.generate()
    ctx.programs = len(dump) + len(failures)
    for name, why in sorted(failures.items()):
        ctx.violation("dialect-load", "dialect %s does not load / expand / translate: %s" % (name, why),
                      {"input": {"dialect": name}, "error": why}, attrs={"dialect": name})
    from sqlfluff.core.dialects import dialect_selector
    total_reach = 0
    for name, info in sorted(dump.items()):
        total_reach += info["reachable"]
        ctx.count("dialect:%s" % name, info["reachable"])
        for n, path in info["dangling"]:
            # replay against the real dialect
            try:
                dialect_selector(name).ref(n)
                real = "resolves"
            except Exception as e:  # noqa
                real = ("%s: %s" % (type(e).__name__, e)).split("\n")[0]
            if real == "resolves":
                ctx.broken_obligation("translator gen_dialects: %s/%s reported dangling but dialect.ref resolves it" % (name, n), real)
                continue
            ctx.violation("dangling-ref", "dialect %s: grammar reference %r reachable from the root does not resolve (%s); path %s" % (
                name, n, real, " > ".join(path[-5:])),
                {"input": {"dialect": name, "name": n, "path_from_root": path}, "real_dialect_ref": real},
                attrs={"dialect": name, "name": n})
    # every (dialect, reachable name) pair is one decided case
    ctx.evaluations += total_reach
    for name, info in dump.items():
        ctx.nontrivial.add("reach:%s:%d" % (name, info["reachable"]))
    ctx.samples.append({"dialect": "ansi", "entries": dump.get("ansi", {}).get("entries"), "reachable_names": dump.get("ansi", {}).get("reachable"),
                        "edges": dump.get("ansi", {}).get("edges"), "lexer_matchers": dump.get("ansi", {}).get("lexer_matchers")})

    # --- regex oracle vs Model/LexTable predicates, on every code point
    ws_true, last_false, nl_lens = regex_sets()
    if coq_ok:
        defs = ("Fixpoint scan (fuel : nat) (c : N) (p : N -> bool) : list N := match fuel with O => [] | S f => "
                "if p c then c :: scan f (c + 1)%N p else scan f (c + 1)%N p end.\n")
        nl_cases = list(nl_lens)
        terms = ["scan (N.to_nat 1114112) 0%N ws_char", "scan (N.to_nat 1114112) 0%N (fun c => negb (last_char c))",
                 coq.clist(["nl_len %s" % coq.ctext(s) for s in nl_cases])]
        m_ws, m_last, m_nl = coq.eval_terms(["Model.LexTable"], terms, defs=defs)
        if list(m_ws) != ws_true:
            ctx.broken_obligation("correspondence Model.LexTable.ws_char vs regex whitespace template",
                                  {"model_only": sorted(set(m_ws) - set(ws_true))[:20], "regex_only": sorted(set(ws_true) - set(m_ws))[:20]})
        if list(m_last) != last_false:
            ctx.broken_obligation("correspondence Model.LexTable.last_char vs last-resort regex",
                                  {"model": list(m_last)[:20], "regex": last_false[:20]})
        if list(m_nl) != [nl_lens[s] for s in nl_cases]:
            ctx.broken_obligation("correspondence Model.LexTable.nl_len vs newline regex", {"model": m_nl, "regex": nl_lens})
        ctx.coverage_extra["regex_oracle_code_points_checked"] = 0x110000

    # --- lexer monitor on the real lexers
    from sqlfluff.core.parser.lexer import PyLexer
    from sqlfluff.core.templaters.base import TemplatedFile
    rng = ctx.rng
    singles = list(range(0, 0x300)) + [0x85, 0x2028, 0x2029, 0x3000, 0xFEFF, 0xD800, 0xDFFF, 0xFFFF, 0x10000, 0x1F600, 0x10FFFF]
    if ctx.tier == "thorough":
        singles = list(range(0, 0x3000)) + singles
    pool = ["'", '"', "`", "/*", "*/", "--", "#", "$$", "\\", "{", "}", "[", "]", "(", ")", "\n", "\r", "\t", " ", "\x00", "\x0b", "\x0c", "\x1c",
            "\x85", " ", "　", "\ud800", "\U0001F600", "a", "é", "1", ".", "e", "+", "-", "@", "?", ":", "%", "$", "<", ">", "=", "!", "~", "^", "|", "&", ";", ","]
    nstr = 25 if ctx.tier == "quick" else 200
    for name in sorted(dump):
        try:
            lx = PyLexer(dialect=name)
        except Exception as e:  # noqa
            ctx.violation("dialect-load", "lexer of %s cannot be built: %r" % (name, e), {"input": {"dialect": name}}, attrs={"dialect": name})
            continue
        texts = ["".join(chr(c) for c in singles)] + [chr(c) for c in rng.sample(singles, 40)]
        for _ in range(nstr):
            texts.append("".join(rng.choice(pool) for _ in range(rng.randrange(1, 30))))
        for t in texts:
            ctx.case(("lex", name, t), bucket="lex:%s" % name,
                     sample={"dialect": name, "text": t[:40]} if name == "ansi" and 3 < len(t) < 30 and len(ctx.samples) < 4 else None)
            try:
                elems = lx.lex_match(t, lx.lexer_matchers)
                # the public path
                segs, errs = lx.lex(TemplatedFile(source_str=t, fname="x.sql"))
            except Exception as e:  # noqa
                ctx.violation("lexer-raises", "lexer of %s raises %s on some text" % (name, type(e).__name__),
                              {"input": {"dialect": name, "text": t}, "error": repr(e)}, attrs={"dialect": name, "exc": type(e).__name__})
                continue
            raw = "".join(s.raw for s in segs)
            if raw != t:
                ctx.violation("lexer-lossy", "lexer of %s drops or alters characters" % name,
                              {"input": {"dialect": name, "text": t}, "lexed": raw}, attrs={"dialect": name})
            n_unlex = sum(1 for s in segs if s.is_type("unlexable"))
            if n_unlex != len(errs):
                ctx.violation("lexer-lxr-count", "unlexable tokens and LXR errors differ in %s" % name,
                              {"input": {"dialect": name, "text": t}, "unlexable": n_unlex, "errors": len(errs)}, attrs={"dialect": name})
    ctx.coverage_extra["dialects"] = sorted(dump)
    ctx.coverage_extra["reachable_names_total"] = total_reach
    ctx.coverage_extra["exhaustive"] = True
