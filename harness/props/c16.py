"""C16 — fixes preserve query results (SQLite as arbiter)."""
import sqlite3

from harness import coq, corpus

LEVEL = "proof"
COQ_TARGETS = ["theories/Properties/C16.vo"]
PROPERTY_FILES = ["theories/Properties/C16.v"]
RULE = ("(1) semantics correspondence: generated expressions of the modelled fragment (=, <>, IS NULL, AND/OR/NOT, +, searched CASE, COALESCE, IFNULL; NULL / "
        "integer / text values) are evaluated by Model/SqlSem.v and by SQLite on random rows; (2) rewrite correspondence: expressions matching the "
        "ST01 / ST02 / ST04 / CV02 patterns are printed, fixed by the REAL single rule, and the result compared (modulo case/whitespace) with the "
        "print of the model's rewrite; (3) search: generated executable SELECT / CTE / UNION / subquery / JOIN / GROUP BY queries over a fixed schema "
        "with random contents (NULLs, duplicates, mixed case text) are fixed with all rules except ST06 and CV05 (sqlite dialect) and executed in "
        "SQLite before and after: same multiset of rows (same sequence when the query has ORDER BY). non-trivial = query changed by fix; "
        "distinct by query text")
ASSUMPTIONS = ["PARTIAL: only four tree rewrites are proved; all other rules are searched with SQLite as oracle", "SQLite %s is the arbiter of query results" % sqlite3.sqlite_version]
TRUSTED_BASE = ["hand model Model/SqlSem.v (validated against SQLite here)", "the expression printer in this module"]

COLS = ["a", "b", "c"]   # a: int, b: int (nullable), c: text (nullable)


# ---------- expressions as python tuples mirroring the Coq type
def gen_expr(rng, d=0):
    k = rng.choice(["col", "lit", "eq", "ne", "isnull", "and", "or", "not", "add", "case", "coalesce", "ifnull"] if d < 3 else ["col", "lit"])
    if k == "col":
        return ("ECol", rng.randrange(2))
    if k == "lit":
        return ("ELit", rng.choice([None, 0, 1, 2, -1]))
    if k in ("eq", "ne", "and", "or", "add", "ifnull"):
        return ({"eq": "EEq", "ne": "ENe", "and": "EAnd", "or": "EOr", "add": "EAdd", "ifnull": "EIfNull"}[k], gen_expr(rng, d + 1), gen_expr(rng, d + 1))
    if k in ("isnull", "not"):
        return ({"isnull": "EIsNull", "not": "ENot"}[k], gen_expr(rng, d + 1))
    if k == "case":
        ws = [(gen_expr(rng, d + 1), gen_expr(rng, d + 1)) for _ in range(rng.randrange(1, 3))]
        return ("ECase", ws, gen_expr(rng, d + 1) if rng.random() < 0.6 else "none")
    return ("ECoalesce", [gen_expr(rng, d + 1) for _ in range(rng.randrange(1, 4))])


def to_sql(e):
    t = e[0]
    if t == "ECol":
        return COLS[e[1]]
    if t == "ELit":
        return "NULL" if e[1] is None else str(e[1])
    if t in ("EEq", "ENe", "EAnd", "EOr", "EAdd"):
        return "(%s %s %s)" % (to_sql(e[1]), {"EEq": "=", "ENe": "<>", "EAnd": "AND", "EOr": "OR", "EAdd": "+"}[t], to_sql(e[2]))
    if t == "EIsNull":
        return "(%s IS NULL)" % to_sql(e[1])
    if t == "ENot":
        return "(NOT %s)" % to_sql(e[1])
    if t == "EIfNull":
        return "IFNULL(%s, %s)" % (to_sql(e[1]), to_sql(e[2]))
    if t == "ECoalesce":
        return "COALESCE(%s)" % ", ".join(to_sql(x) for x in (e[1] if len(e[1]) > 1 else e[1] + [("ELit", None)]))
    if t == "ECase":
        s = "CASE " + " ".join("WHEN %s THEN %s" % (to_sql(c), to_sql(r)) for c, r in e[1])
        if e[2] != "none":
            s += " ELSE " + to_sql(e[2])
        return s + " END"
    raise ValueError(t)


def to_coq(e):
    t = e[0]
    if t == "ECol":
        return "(ECol %d)" % e[1]
    if t == "ELit":
        return "(ELit VNull)" if e[1] is None else "(ELit (VInt %s))" % coq.cZ(e[1])
    if t in ("EEq", "ENe", "EAnd", "EOr", "EAdd", "EIfNull"):
        return "(%s %s %s)" % (t, to_coq(e[1]), to_coq(e[2]))
    if t in ("EIsNull", "ENot"):
        return "(%s %s)" % (t, to_coq(e[1]))
    if t == "ECoalesce":
        args = e[1] if len(e[1]) > 1 else e[1] + [("ELit", None)]
        return "(ECoalesce [%s])" % "; ".join(to_coq(x) for x in args)
    if t == "ECase":
        return "(ECase [%s] %s)" % ("; ".join("(%s, %s)" % (to_coq(c), to_coq(r)) for c, r in e[1]), "None" if e[2] == "none" else "(Some %s)" % to_coq(e[2]))
    raise ValueError(t)


def norm(sql):
    return "".join(sql.upper().split())


# ---------- query generator for the search
def gen_query(rng):
    cols = ["a", "b", "c", "t.a", "a + 1", "coalesce(b, 0)", "upper(c)", "count(*)", "sum(b)", "case when b is null then 0 else b end", "ifnull(c, 'z')",
            "a <> 1", "a != b", "b is null", "case when a > 1 then 'x' else null end", "a AS aa", "b bb"]
    kind = rng.choice(["simple", "simple", "where", "group", "join", "cte", "union", "subquery", "distinct", "order"])
    sel = lambda n: " ,".join(rng.choice([c for c in cols if "count" not in c and "sum" not in c]) for _ in range(n))  # noqa: E731
    if kind == "simple":
        q = "select %s from t" % sel(rng.randrange(1, 4))
    elif kind == "where":
        q = "select %s from t where %s" % (sel(2), rng.choice(["a = 1", "b is null", "a <> 2 and c = 'x'", "not (a = 1) or b = 2", "c in ('x','Y')", "a between 1 and 2", "b != 1"]))
    elif kind == "group":
        q = "select a, count(*), sum(b) from t group by a" + rng.choice(["", " having count(*) > 1", " order by a"])
    elif kind == "join":
        q = "select t.a, u.d from t %s join u on %s" % (rng.choice(["", "inner", "left"]), rng.choice(["t.a = u.a", "u.a = t.a", "t.a=u.a and u.d is not null"]))
    elif kind == "cte":
        q = "with x as (select a, b from t where a > 0) select x.a, x.b from x" + rng.choice(["", " where x.b is null"])
    elif kind == "union":
        q = "select a from t union%s select a from u" % rng.choice(["", " all"])
    elif kind == "subquery":
        q = "select a from t where a in (select a from u) " + rng.choice(["", "and b = 1"])
    elif kind == "distinct":
        q = "select distinct(a), b from t" if rng.random() < 0.5 else "select distinct a from t"
    else:
        q = "select a, b from t order by a, b desc"
    if rng.random() < 0.3:
        q = q.replace("select", "SELECT", 1)
    return q + rng.choice(["\n", ";\n", ""])


def setup_db(rng):
    con = sqlite3.connect(":memory:")
    con.execute("create table t (a integer, b integer, c text)")
    con.execute("create table u (a integer, d text)")
    for _ in range(rng.randrange(3, 9)):
        con.execute("insert into t values (?,?,?)", (rng.choice([0, 1, 2, 3]), rng.choice([None, 0, 1, 2]), rng.choice([None, "x", "Y", "z"])))
    for _ in range(rng.randrange(2, 6)):
        con.execute("insert into u values (?,?)", (rng.choice([1, 2, 4]), rng.choice([None, "p", "q"])))
    return con


def run(ctx, coq_ok):
    import logging
    logging.disable(logging.CRITICAL)
    import sqlfluff
    from sqlfluff.core import FluffConfig, Linter
    rng = ctx.rng
    # ---------- (1) semantics vs SQLite
    n1 = 300 if ctx.tier == "quick" else 3000
    con = sqlite3.connect(":memory:")
    con.execute("create table r (a integer, b integer)")
    rows = [(None, None), (0, None), (None, 1), (0, 0), (1, 0), (1, 1), (2, 1), (-1, 2)]
    con.executemany("insert into r values (?,?)", rows)
    exprs, lits, impl = [], [], []
    for _ in range(n1):
        e = gen_expr(rng)
        try:
            got = [r[0] for r in con.execute("select %s from r order by rowid" % to_sql(e))]
        except sqlite3.Error as ex:
            ctx.broken_obligation("expression printer produced SQL that SQLite rejects", "%s: %s" % (to_sql(e), ex))
            break
        exprs.append(e)
        impl.append(got)
        lits.append(to_coq(e))
        ctx.case(("sem", to_sql(e)), bucket="semantics")
    if coq_ok and lits:
        rows_lit = "[" + "; ".join("(%s, %s)" % tuple("VNull" if v is None else "(VInt %s)" % coq.cZ(v) for v in r) for r in rows) + "]"
        fn = "fun e => map (fun r : value * value => eval (fun n => if Nat.eqb n 0 then fst r else snd r) e) %s" % rows_lit
        model = coq.eval_sharded(["Model.SqlSem"], fn, lits, shard=100)
        for e, mv, got in zip(exprs, model, impl):
            m = [None if v == ("VNull",) or v == "VNull" else v[1] for v in mv]
            if m != got:
                ctx.broken_obligation("correspondence Model.SqlSem.eval vs SQLite", {"input": to_sql(e), "model": m, "sqlite": got})
                break
        ctx.coverage_extra["expressions_vs_sqlite"] = len(lits)
    # ---------- (2) the proved rewrites vs the real rules
    pats = []
    for _ in range(25 if ctx.tier == "quick" else 200):
        x, y = ("ECol", rng.randrange(2)), gen_expr(rng, 3)
        c1, c2 = ("EEq", ("ECol", 0), ("ELit", rng.randrange(3))), ("EIsNull", ("ECol", 1))
        pats.append(("ST01", "st01", ("ECase", [(c1, gen_expr(rng, 3))], ("ELit", None))))
        pats.append(("ST02", "st02", ("ECase", [(("EIsNull", x), y)], x)))
        pats.append(("ST04", "st04", ("ECase", [(c1, gen_expr(rng, 3))], ("ECase", [(c2, gen_expr(rng, 3))], gen_expr(rng, 3) if rng.random() < 0.5 else "none"))))
        pats.append(("CV02", "cv02", ("EIfNull", gen_expr(rng, 3), gen_expr(rng, 3))))   # operands are columns/literals: the model rewrites at the root of the pattern
    rl, rimpl = [], []
    for code, fn, e in pats:
        q = "SELECT %s AS v FROM r\n" % to_sql(e)
        fixed = sqlfluff.fix(q, dialect="sqlite", rules=[code])
        rimpl.append((code, q, fixed))
        rl.append("%s %s" % (fn, to_coq(e)))
        ctx.case(("rewrite", code, q), bucket="rewrite:%s" % code, sample={"rule": code, "before": q.strip(), "after": fixed.strip()} if len(ctx.samples) < 4 else None)
    if coq_ok and rl:
        # the model's rewritten tree is printed by the same printer: ask Coq only whether the rewrite fired and evaluate both on the rows
        fn2 = "fun e => e"
        model = coq.eval_sharded(["Model.SqlSem"], fn2, rl, shard=50)
        for (code, q, fixed), mv in zip(rimpl, model):
            exp = "SELECT %s AS v FROM r\n" % to_sql(from_coq(mv))
            if norm(fixed) != norm(exp):
                # the real rule may legitimately decline (e.g. ST02 on complex operands): then the text is unchanged
                if norm(fixed) == norm(q):
                    ctx.count("rewrite:real-rule-declined")
                    continue
                ctx.broken_obligation("correspondence Model.SqlSem.%s vs rule %s" % (code.lower(), code), {"input": q, "model": exp, "impl": fixed})
                break
    # ---------- (3) search
    lnt = Linter(config=FluffConfig(overrides={"dialect": "sqlite", "exclude_rules": "ST06,CV05", "templater": "raw"}))
    nq = 120 if ctx.tier == "quick" else 1500
    nchanged = 0
    for _ in range(nq):
        db = setup_db(rng)
        q = gen_query(rng)
        try:
            before = db.execute(q.rstrip().rstrip(";")).fetchall()
        except sqlite3.Error:
            ctx.count("search:generator-invalid")
            continue
        lf = lnt.lint_string(q, fname="q.sql", fix=True)
        if lf.tree is None or any(v.rule_code() in ("PRS", "TMP", "LXR") for v in lf.get_violations(filter_ignore=False, filter_warning=False)):
            ctx.count("search:unparsable-by-sqlfluff")
            continue
        fixed = lf.fix_string()[0]
        changed = fixed != q
        nchanged += changed
        ctx.case(("q", q) if changed else None, bucket="search:%s" % ("changed" if changed else "unchanged"),
                 sample={"query": q.strip(), "fixed": fixed.strip(), "rows": len(before)} if changed and len(ctx.samples) < 6 else None)
        try:
            after = db.execute(fixed.rstrip().rstrip(";")).fetchall()
        except sqlite3.Error as ex:
            ctx.violation("fixed-query-fails", "the fixed query no longer executes: %s" % ex, {"input": {"query": q}, "fixed": fixed}, attrs={"error": str(ex)[:40]})
            continue
        ordered = "order by" in q.lower()
        same = (before == after) if ordered else (sorted(map(repr, before)) == sorted(map(repr, after)))
        if not same:
            ctx.violation("rows-differ", "fixing changed the query's result: %r -> %r" % (q.strip()[:80], fixed.strip()[:80]),
                          {"input": {"query": q, "rows_t": db.execute("select * from t").fetchall(), "rows_u": db.execute("select * from u").fetchall()}, "fixed": fixed,
                           "before": before, "after": after}, attrs={"ordered": ordered})
    ctx.coverage_extra["queries_changed_by_fix"] = nchanged


def from_coq(v):
    """parsed Coq expr value -> python tuple form"""
    t = v[0]
    if t == "ECol":
        return ("ECol", v[1])
    if t == "ELit":
        x = v[1]
        return ("ELit", None if x == ("VNull",) or x == "VNull" else x[1])
    if t in ("EEq", "ENe", "EAnd", "EOr", "EAdd", "EIfNull"):
        return (t, from_coq(v[1]), from_coq(v[2]))
    if t in ("EIsNull", "ENot"):
        return (t, from_coq(v[1]))
    if t == "ECoalesce":
        return ("ECoalesce", [from_coq(x) for x in v[1]])
    if t == "ECase":
        els = v[2]
        return ("ECase", [(from_coq(c), from_coq(r)) for c, r in v[1]], "none" if els is None else from_coq(els[1] if els[0] == "Some" else els))
    raise ValueError(v)
