"""C19 — all entry points agree."""
import os
import shutil
import tempfile

from harness import scenarios

LEVEL = "proof"
COQ_TARGETS = ["theories/Properties/C19.vo"]
PROPERTY_FILES = ["theories/Properties/C19.v"]
RULE = ("scenario grid as C22 (33 core + seeded sample / all 864) compared three ways (path, stdin --stdin-filename, API): violations, fixed "
        "text, exit status; plus config-file and inline `-- sqlfluff:` directive scenarios. non-trivial = scenario with >=1 violation; "
        "distinct = distinct scenario")
ASSUMPTIONS = ["violation summaries captured at LintedDir.add are the decision layer's whole input"]
TRUSTED_BASE = ["hand model Model/Gate.v (exit and write decisions of the three entry points)"]

INLINE = [
    ("-- sqlfluff:exclude_rules:LT01\nSELECT a  from b;\n", "exclude_rules inline"),
    ("-- sqlfluff:rules:CP01\nSELECT a  from b;\n", "rules inline"),
    ("-- sqlfluff:rules:capitalisation.keywords:capitalisation_policy:upper\nselect a from b;\n", "rule option inline"),
    ("-- sqlfluff:dialect:tsql\nSELECT TOP 5 a FROM b;\n", "dialect inline"),
    ("-- sqlfluff:max_line_length:20\nSELECT aaaaaaaaaaaa, bbbbbbbbbbbbbb FROM t;\n", "max_line_length inline"),
]


def inline_config(ctx):
    import sqlfluff
    from click.testing import CliRunner
    from sqlfluff.cli import commands
    base = os.environ.get("TMPDIR") or "/var/tmp"
    for sql, what in INLINE:
        d = tempfile.mkdtemp(prefix="verif-c19-", dir=base)
        cwd = os.getcwd()
        try:
            os.chdir(d)
            open(".sqlfluff", "w").write("[sqlfluff]\ndialect = ansi\nrules = LT01,CP01,LT05\n")
            open("t.sql", "w").write(sql)
            runner = CliRunner()
            import json
            rp = runner.invoke(commands.lint, ["t.sql", "--format", "json"])
            rs = runner.invoke(commands.lint, ["-", "--stdin-filename", "t.sql", "--format", "json"], input=sql)

            def viol(res):
                try:
                    data = json.loads(res.stdout if hasattr(res, "stdout") else res.output)
                    return sorted((v["code"], v["start_line_no"], v["start_line_pos"]) for rec in data for v in rec["violations"])
                except Exception as e:
                    return "unparseable output: %r" % (res.output[:200],)
            vp, vs = viol(rp), viol(rs)
            va = sorted((v["code"], v["start_line_no"], v["start_line_pos"]) for v in sqlfluff.lint(sql, config_path=os.path.join(d, ".sqlfluff")))
            runner.invoke(commands.fix, ["t.sql"])
            fp = open("t.sql").read()
            open("t.sql", "w").write(sql)
            fs = runner.invoke(commands.fix, ["-", "--stdin-filename", "t.sql"], input=sql)
            fs_out = fs.stdout if hasattr(fs, "stdout") else fs.output
            fa = sqlfluff.fix(sql, config_path=os.path.join(d, ".sqlfluff"))
            ctx.case(("inline", what), bucket="inline-config", sample={"sql": sql, "path": vp, "stdin": vs, "api": va})
            if not (vp == vs == va):
                ctx.violation("inline-config-violations-differ", "violations differ between entry points for a file with inline config (%s)" % what,
                              {"input": {"sql": sql, "config": "dialect=ansi rules=LT01,CP01,LT05"}, "path": vp, "stdin": vs, "api": va},
                              attrs={"what": what, "stdin_differs": vp != vs, "api_differs": vp != va})
            if not (fp == fs_out == fa):
                ctx.violation("inline-config-fix-differs", "fixed text differs between entry points for a file with inline config (%s)" % what,
                              {"input": {"sql": sql}, "path": fp, "stdin": fs_out, "api": fa},
                              attrs={"what": what, "stdin_differs": fp != fs_out, "api_differs": fp != fa})
        finally:
            os.chdir(cwd)
            shutil.rmtree(d, ignore_errors=True)


def run(ctx, coq_ok):
    specs = scenarios.choose_specs(ctx, 45 if ctx.tier == "quick" else None)
    obs = scenarios.run_specs(specs)
    for o in obs:
        nt = any(o["lint_path"]["files"] and any(o["lint_path"]["files"]) for _ in [0])
        ctx.case(tuple(o["spec"]) if nt else None, bucket="lint=%s,sup=%s/%s" % (o["spec"][2], o["spec"][3], o["spec"][4]),
                 sample={"spec": o["spec"], "exits(path,stdin)": [o["fix_path"]["exit"], o["fix_stdin"]["exit"]]} if nt else None)
        scenarios.eval_c19(ctx, o)
    inline_config(ctx)
    if coq_ok:
        ctx.coverage_extra["model_vs_impl_cases"] = scenarios.correspond(ctx, obs)
    ctx.coverage_extra["exhaustive"] = ctx.tier == "thorough"
