"""C10 — fixes never edit template code."""
import re

from harness import corpus

LEVEL = "proof"
COQ_TARGETS = ["theories/Properties/C10.vo"]
PROPERTY_FILES = ["theories/Properties/C10.v"]
RULE = ("real fixes (all rules; layout; core) of generated Jinja templates x 2 contexts (if/elif/else, for, set, macro, comments, whitespace control, so "
        "several rendering variants), python format strings and placeholder SQL in every known style, whose rendered SQL has fixable violations. "
        "Checked per run: (a) the hypothesis of theorem C10_protected_ranges_survive on the real merged patch list -- no non-`source` patch overlaps "
        "a non-literal raw slice; (b) end to end -- the ordered list of (kind, text) of all non-literal raw slices of the fixed source equals that "
        "of the original (when a JJ01 tag-padding fix was applied, modulo whitespace just inside the tag delimiters). non-trivial = a run that "
        "changed the file; distinct by (templater, source, rules)")
ASSUMPTIONS = ["PARTIAL: the filter that keeps rule-generated patches off template code (generate_source_patches, has_template_conflicts) is validated per run, not modelled",
               "JJ01 (Jinja tag padding) is the property's stated exception"]
TRUSTED_BASE = ["Model/Patch.v (tied to the code by C30's correspondence)", "harness/fixcheck.py"]

_PAD = re.compile(r"^(\{[{%#]-?)\s*(.*?)\s*(-?[}%#]\})$", re.S)


def norm_tag(raw):
    m = _PAD.match(raw)
    return (m.group(1) + " " + m.group(2) + " " + m.group(3)) if m else raw


def run(ctx, coq_ok):
    rng = ctx.rng
    jobs = []
    nt = 60 if ctx.tier == "quick" else 700
    rulesets = ["all", "layout", "core", "LT01,LT02,CP01,JJ01"]
    for i in range(nt):
        src = corpus.gen_jinja(rng)
        # make sure something is fixable in the literal parts
        src = src.replace("SELECT\n    ", rng.choice(["SELECT\n    ", "select  ", "SELECT\n  "]), 1).replace("\nFROM ", rng.choice(["\nFROM ", "\nfrom  ", " FROM "]), 1)
        jobs.append(("ansi", "jinja", i % 2, "jinja-gen", src, rulesets[i % len(rulesets)], (), ("patches", "parts")))
    fixed_t = ["select a,b from {{ tbl }} where  {% if flag %}a=1{% else %}b=2{% endif %}\n",
               "SELECT {% for c in items %}{{c}}  ,{% endfor %} 1 as  x from t\n",
               "select\n{%- for i in range(2) %}\n  col_{{i}}  AS C{{i}},\n{%- endfor %}\n 1 FROM T {#comment#}\n",
               "{%if flag%}select  1{%else%}select  2{%endif%}\n", "SELECT {{col}},{{   n   }} from t\n",
               # indentation swallowed by a whitespace-control tag at the start of the file; raw blocks; tags followed by trailing whitespace
               "   {%- set x = 1 %}SELECT 1\n", " {{- 'SELECT' }} 1\n", "    {%- if flag %}SELECT 1{% endif %}\n",
               "SELECT 1 {%raw -%}   \n, 2 {% endraw %}\nFROM t \n", "SELECT a {% if flag %}  \n, b{% endif %}   \nFROM t  \n", "SELECT a {# c #}   \nFROM t\n"]
    for s in fixed_t:
        for c in (0, 1):
            for r in rulesets:
                jobs.append(("ansi", "jinja", c, "jinja-fixed", s, r, (), ("patches", "parts")))
    for i in range(nt // 3):
        jobs.append(("ansi", "python", None, "pyformat-gen", corpus.gen_pyformat(rng).replace("SELECT ", "select  ", 1), rulesets[i % 3], (), ("patches", "parts")))
    for style in corpus.PLACEHOLDER_STYLES:
        for k in range(2 if ctx.tier == "quick" else 10):
            jobs.append(("ansi", "placeholder", style, "placeholder-" + style, corpus.gen_placeholder(rng, style).replace("SELECT a,", "select  a ,", 1), rulesets[k % 3], (), ("patches", "parts")))
    nchanged = 0
    for (d, tpl, style, label, src, rules, extra, want), st, res in corpus.pmap("harness.fixcheck", "fix_case", jobs):
        if st != "ok":
            ctx.broken_obligation("harness worker crashed on %s" % label, res)
            continue
        changed = bool(res.get("changed"))
        nchanged += changed
        ctx.case((tpl, style, src, rules) if changed else None, bucket="%s:%s" % (tpl, "exc" if res["exc"] else "changed" if changed else "no-tree" if res["fixed"] is None else "unchanged"),
                 sample={"templater": tpl, "rules": rules, "source": src[:120], "fixed": (res.get("fixed") or "")[:120]} if changed and tpl == "jinja" and len(ctx.samples) < 4 else None)
        inp = {"dialect": d, "templater": tpl, "style": style, "label": label, "source": src, "rules": rules}
        if res["exc"]:
            e = res["exc"]
            ctx.violation("fix-raises", "fix raises %s (%s) in %s [%s]" % (e["exc_type"], e["msg"], e["frame"], tpl), {"input": inp, "trace": e["trace"]},
                          attrs={"exc_type": e["exc_type"], "frame": e["frame"]})
            continue
        if res["fixed"] is None:
            continue
        jj01 = "JJ01" in res["codes0"]
        src_patch = any(cat == "source" for (_a, _b, _r, cat) in (res.get("patches") or []))
        lt02 = "LT02" in res["codes0"]
        # (a) hypothesis of the theorem on the real patches
        for (a, b, raw, cat) in (res.get("patches") or []):
            if cat == "source":
                continue
            for (kind, x, y) in res["nonliteral"]:
                if not (b <= x or y <= a) and not (a == b and (a == x or a == y)):
                    ctx.violation("patch-overlaps-template-code", "a %s patch (%d,%d)->%r overlaps the %s slice (%d,%d) %r [%s]" % (cat, a, b, raw[:20], kind, x, y, src[x:y][:30], tpl),
                                  {"input": inp, "patch": [a, b, raw, cat]}, attrs={"category": cat, "templater": tpl})
        # (c) the number of template markers cannot change (a duplicated or deleted tag shows here even when it re-renders alike)
        for mk in ("{%", "{{", "{#", "%}", "}}", "#}"):
            if tpl == "jinja" and res["src"].count(mk) != res["fixed"].count(mk):
                ctx.violation("template-marker-count-changed", "fix changed the number of %r markers from %d to %d [%s, rules %s]" % (mk, res["src"].count(mk), res["fixed"].count(mk), tpl, rules),
                              {"input": inp, "fixed": res["fixed"]}, attrs={"templater": tpl, "jj01": jj01, "raw_block": "raw" in res["src"], "delta": res["fixed"].count(mk) - res["src"].count(mk), "source_category_patch": src_patch, "lt02": lt02})
                break
        # (b) end to end
        p0, p1 = res["parts0"], res["parts1"]
        if p1 is None:
            ctx.violation("template-fixed-does-not-render", "the fixed source no longer renders [%s]" % tpl, {"input": inp, "fixed": res["fixed"]},
                          attrs={"templater": tpl, "jj01": jj01, "source_category_patch": src_patch, "lt02": lt02, "raw_block": "raw" in src})
            continue
        if jj01:
            p0 = [(k, norm_tag(r)) for k, r in p0]
            p1 = [(k, norm_tag(r)) for k, r in p1]
        if p0 != p1:
            i = next((k for k in range(min(len(p0), len(p1))) if p0[k] != p1[k]), min(len(p0), len(p1)))
            ctx.violation("template-code-changed", "template code changed by fix: %r -> %r [%s, rules %s]" % (p0[i:i + 1], p1[i:i + 1], tpl, rules),
                          {"input": inp, "fixed": res["fixed"]}, attrs={"templater": tpl, "jj01": jj01, "source_category_patch": src_patch, "lt02": lt02, "raw_block": "raw" in src})
    ctx.coverage_extra["files_changed_by_fix"] = nchanged
    ctx.coverage_extra["fix_runs"] = len(jobs)
