"""C05 — no rule fails internally on any parse tree."""
from harness import corpus

LEVEL = "proof"
COQ_TARGETS = ["theories/Properties/C05.vo"]
PROPERTY_FILES = ["theories/Properties/C05.v"]
RULE = ("all bundled rules (rule selection `all`, plus rule groups with non-default options taken from a fixed option table) in lint and fix mode on "
        "fixtures of every dialect and token-level mutations of them (partly unparsable trees included); predicate: no reported violation's "
        "description starts with 'Unexpected exception' (by theorem C05_unexpected_iff_eval_raised this is equivalent to: no _eval call raised) "
        "and the run itself does not raise. non-trivial = mutated input or non-default options; distinct by (dialect, sql, mode, options)")
ASSUMPTIONS = ["PARTIAL: rule bodies are not modelled; the universal statement over all rules x trees is searched, not proved",
               "exceptions raised outside the try block of BaseRule.crawl (_process_lint_result, _adjust_anchors_for_fixes) surface as crashes and are reported here too"]
TRUSTED_BASE = ["hand model Model/Funnel.v (crawl) tied to the code by C04's fault-injection correspondence"]

OPTION_SETS = [
    (),
    (("indent_unit", "tab"),),
    (("max_line_length", 40),),
    (("large_file_skip_byte_limit", 0),),
]
RULE_CONFIGS = [
    None,
    {"rules": {"capitalisation.keywords": {"capitalisation_policy": "upper"}, "capitalisation.identifiers": {"extended_capitalisation_policy": "pascal"},
               "aliasing.table": {"aliasing": "implicit"}, "aliasing.column": {"aliasing": "implicit"}, "convention.not_equal": {"preferred_not_equal_style": "ansi"},
               "layout.select_targets": {"wildcard_policy": "multiple"}, "references.keywords": {"quoted_identifiers_policy": "all"},
               "convention.quoted_literals": {"preferred_quoted_literal_style": "double_quotes", "force_enable": True},
               "references.special_chars": {"quoted_identifiers_policy": "all", "allow_space_in_identifier": True},
               "structure.subquery": {"forbid_subquery_in": "both"}, "convention.count_rows": {"prefer_count_1": True},
               "convention.select_trailing_comma": {"select_clause_trailing_comma": "require"}, "convention.terminator": {"multiline_newline": True, "require_final_semicolon": True},
               "ambiguous.join": {"fully_qualify_join_types": "both"}, "ambiguous.column_references": {"group_by_and_order_by_style": "explicit"},
               "convention.casting_style": {"preferred_type_casting_style": "shorthand"}, "references.consistent": {"single_table_references": "qualified"},
               "references.from": {"force_enable": True}, "references.qualification": {"subqueries_ignore_external_references": True}},
     "layout": {"type": {"comma": {"line_position": "leading"}, "binary_operator": {"line_position": "trailing"}}},
     "indentation": {"indented_joins": True, "indented_using_on": False, "indented_ctes": True, "indented_then": False, "allow_implicit_indents": True}},
]
_L = {}


def rules_case(dialect, label, sql, mode, optidx, cfgidx):
    import logging
    logging.disable(logging.CRITICAL)
    from harness.crashcheck import _exc_info
    key = (dialect, optidx, cfgidx)
    if key not in _L:
        from sqlfluff.core import FluffConfig, Linter
        o = {"dialect": dialect, "rules": "all"}
        o.update(dict(OPTION_SETS[optidx]))
        _L[key] = Linter(config=FluffConfig(configs=RULE_CONFIGS[cfgidx] or {"core": {}}, overrides=o))
    out = {"ok": True, "exc": None, "unexpected": [], "n": 0}
    try:
        lf = _L[key].lint_string(sql, fname="t.sql", fix=(mode == "fix"))
        for v in lf.get_violations(filter_ignore=False, filter_warning=False):
            out["n"] += 1
            d = v.desc()
            if d.startswith("Unexpected exception"):
                out["unexpected"].append((v.rule_code(), d.split(";")[0][:200]))
    except BaseException as e:  # noqa
        out["ok"] = False
        out["exc"] = _exc_info(e)
    return out


def run(ctx, coq_ok):
    rng = ctx.rng
    per = 2 if ctx.tier == "quick" else 12
    muts = 2 if ctx.tier == "quick" else 5
    items = corpus.corpus(rng, per, muts, max_chars=800 if ctx.tier == "quick" else 3000)
    jobs = []
    for k, (d, label, sql) in enumerate(items):
        jobs.append((d, label, sql, "fix" if k % 2 else "lint", k % len(OPTION_SETS) if k % 5 == 0 else 0, 1 if k % 3 == 0 else 0))
    for (d, label, sql, mode, oi, ci), st, res in corpus.pmap("harness.props.c05", "rules_case", jobs):
        if st != "ok":
            ctx.broken_obligation("harness worker crashed on %s/%s" % (d, label), res)
            continue
        nontriv = "~" in label or oi or ci
        ctx.case((d, sql, mode, oi, ci) if nontriv else None, bucket="%s:%s" % (mode, "exc" if not res["ok"] else "unexpected" if res["unexpected"] else "ok"),
                 sample={"dialect": d, "label": label, "mode": mode, "violations": res["n"]} if "~" in label and len(ctx.samples) < 4 else None)
        inp = {"dialect": d, "label": label, "sql": sql, "mode": mode, "options": list(OPTION_SETS[oi]), "rule_config": ci}
        for code, what in res["unexpected"]:
            ctx.violation("unexpected-exception", "rule %s fails internally: %s [dialect %s, %s]" % (code, what, d, label), {"input": inp}, attrs={"rule": code, "what": what[:80]})
        if not res["ok"]:
            e = res["exc"]
            ctx.violation("rule-run-crash", "%s with all rules raises %s (%s) in %s [dialect %s]" % (mode, e["exc_type"], e["msg"], e["frame"], d),
                          {"input": inp, "trace": e["trace"]}, attrs={"exc_type": e["exc_type"], "frame": e["frame"]})
    ctx.coverage_extra["rule_runs"] = len(jobs)
