"""C20 — noqa directives suppress exactly the specified violations."""
import itertools

from harness import coq

LEVEL = "proof"
COQ_TARGETS = ["theories/Properties/C20.vo"]
PROPERTY_FILES = ["theories/Properties/C20.v"]
RULE = ("small scope: directive alphabet = lines 1-3 x {plain, disable, enable} x rules {None, (A), (B), (), (A,B)} (45 forms), violation "
        "alphabet = codes {A,B,C} x lines 1-3; every list of <=2 directives x <=1 violations and <=1 directive x 2 violations exhaustively, "
        "plus seeded random 3-directive / 2-3-violation cases; comment-text parsing on generated directive texts; end-to-end files incl. "
        "parse/template failures; end-to-end files WITHOUT a parse tree (fatal jinja syntax error / unclosed bracket on line N>1, source-based "
        "noqa scan) whose lines above contain blank lines, CRLF endings and non-newline line-break characters (FF, VT, FS/GS/RS, NEL, U+2028/9), "
        "linted by path, by string and through the CLI. non-trivial = some directive's line/rules interact with some violation; "
        "distinct = distinct case")
ASSUMPTIONS = ["Python sorted() is stable", "violation identity abstracted to (code, line); directive identity to its index"]
TRUSTED_BASE = ["hand model Model/NoQa.v of IgnoreMask.ignore_masked_violations / used flags; comment parsing (_parse_noqa) is not in the Coq "
                "model: it is checked against a by-construction oracle only"]

RULES = [None, ("A",), ("B",), (), ("A", "B")]
ACTIONS = [None, "disable", "enable"]
CODES = ["A", "B", "C"]


def dir_of(c):
    return (1 + c // 15, RULES[c % 5], ACTIONS[(c // 5) % 3])


def viol_of(c):
    return (CODES[c % 3], 1 + c // 3)


_cls = {}


def mkviol(code, line):
    from sqlfluff.core.errors import SQLBaseError
    if code not in _cls:
        _cls[code] = type("V_" + code, (SQLBaseError,), {"_code": code})
    return _cls[code]("d", line_no=line, line_pos=1)


def impl_case(dcodes, vcodes):
    from sqlfluff.core.rules.noqa import IgnoreMask, NoQaDirective
    ds = [NoQaDirective(l, 1, r, a, "x") for (l, r, a) in map(dir_of, dcodes)]
    vs = [mkviol(*viol_of(c)) for c in vcodes]
    out = IgnoreMask(ds).ignore_masked_violations(vs)
    return [(CODES.index(v.rule_code()), v.line_no) for v in out], [i for i, d in enumerate(ds) if d.used]


# ---- the property's own words, as an oracle over the implementation's output
def covers(rules, code):
    return rules is None or code in rules


def oracle(dcodes, vcodes):
    ds = [dir_of(c) for c in dcodes]
    vs = [viol_of(c) for c in vcodes]
    kept = []
    used = set()
    survivors = []
    for (code, line) in vs:
        hit = [i for i, (l, r, a) in enumerate(ds) if a is None and l == line and covers(r, code)]
        if hit:
            used.add(hit[0])  # the first matching plain directive takes the credit
        else:
            survivors.append((code, line))
    for (code, line) in survivors:
        rel = sorted([(l, i) for i, (l, r, a) in enumerate(ds) if a is not None and covers(r, code) and l <= line])
        if rel and ds[rel[-1][1]][2] == "disable":
            used.add(rel[-1][1])
        else:
            kept.append((CODES.index(code), line))
    return kept, used


def interacts(dcodes, vcodes):
    ds = [dir_of(c) for c in dcodes]
    vs = [viol_of(c) for c in vcodes]
    return any(covers(r, code) and (l == line if a is None else l <= line) for (l, r, a) in ds for (code, line) in vs)


def check_case(ctx, dcodes, vcodes, res):
    kept, used = res
    okept, oused = oracle(dcodes, vcodes)
    inp = {"directives(line,rules,action)": [dir_of(c) for c in dcodes], "violations(code,line)": [viol_of(c) for c in vcodes]}
    has_empty = any(dir_of(c)[1] == () and dir_of(c)[2] is not None for c in dcodes)
    if kept != okept:
        ctx.violation("noqa-mask", "a violation is hidden/shown contrary to the noqa directives",
                      {"input": inp, "impl_kept": kept, "spec_kept": okept},
                      attrs={"empty_rule_tuple_range_directive": has_empty})
    else:
        # unused-warning exactness for plain and disable directives
        for i, c in enumerate(dcodes):
            if dir_of(c)[2] != "enable" and ((i in used) != (i in oused)):
                ctx.violation("noqa-used", "unused-noqa bookkeeping wrong for a plain/disable directive",
                              {"input": inp, "impl_used": used, "spec_used": sorted(oused)},
                              attrs={"empty_rule_tuple_range_directive": has_empty})


# ---- comment text parsing: directives generated with a known meaning
def gen_comment(rng, refmap_keys):
    action = rng.choice([None, None, "disable", "enable"])
    if rng.random() < 0.15:
        refs = None
    else:
        refs = [rng.choice(refmap_keys + ["PRS", "TMP", "LXR", "LT0*", "capitalisation.*", "L0?", "zz"]) for _ in range(rng.choice([1, 1, 2, 3]))]
    sp = lambda: rng.choice(["", " ", "  "])
    body = "noqa"
    if refs is None and action is None and rng.random() < 0.5:
        pass
    else:
        body += ":" + sp()
        if action:
            body += action + "="
        body += (sp() + "," + sp()).join(refs) if refs is not None else "all"
    style = rng.choice(["inline", "inline2", "block"])
    if style == "inline":
        text = "--" + sp() + body + sp()
    elif style == "inline2":
        text = "-- some text --" + sp() + body
    else:
        text = "/*" + sp() + body + sp() + "*/"
    return text, action, refs


def run(ctx, coq_ok):
    import fnmatch

    cases = []
    D = range(45)
    V = range(9)
    for nd in (0, 1, 2):
        for ds in itertools.product(D, repeat=nd):
            for nv in (0, 1):
                for vs in itertools.product(V, repeat=nv):
                    cases.append((list(ds), list(vs)))
    for nd in (0, 1):
        for ds in itertools.product(D, repeat=nd):
            for vs in itertools.product(V, repeat=2):
                cases.append((list(ds), list(vs)))
    nrand = 6000 if ctx.tier == "quick" else 150000
    for _ in range(nrand):
        nd = ctx.rng.choice([2, 3, 3, 4])
        nv = ctx.rng.choice([2, 2, 3])
        cases.append(([ctx.rng.randrange(45) for _ in range(nd)], [ctx.rng.randrange(9) for _ in range(nv)]))
    impl = []
    for dc, vc in cases:
        r = impl_case(dc, vc)
        impl.append(r)
        nt = interacts(dc, vc)
        ctx.case((tuple(dc), tuple(vc)) if nt else None, bucket="d%d,v%d" % (len(dc), len(vc)),
                 sample={"directives": [dir_of(c) for c in dc], "violations": [viol_of(c) for c in vc], "kept": r[0], "used": r[1]} if nt and len(dc) >= 3 else None)
        check_case(ctx, dc, vc, r)

    # comment parsing against by-construction meaning
    from sqlfluff.core import FluffConfig, Linter
    from sqlfluff.core.rules.noqa import IgnoreMask
    lnt = Linter(config=FluffConfig(overrides={"dialect": "ansi"}))
    refmap = lnt.get_rulepack().reference_map
    keys = sorted(refmap.keys())
    npar = 400 if ctx.tier == "quick" else 4000
    for _ in range(npar):
        text, action, refs = gen_comment(ctx.rng, keys)
        content = text
        if content.startswith("/*"):
            content = content[2:-2].strip()
        else:
            content = content.strip()
        got = IgnoreMask._parse_noqa(content, 3, 7, refmap)
        if refs is None or refs == ["all"]:
            want_rules = None
        else:
            exp = set()
            for r in refs:
                ks = fnmatch.filter(keys, r)
                if ks:
                    for k in ks:
                        exp |= refmap[k]
                else:
                    exp.add(r)
            want_rules = tuple(sorted(exp))
        ctx.case(("parse", text), bucket="comment-parse")
        ok = (got is not None and not isinstance(got, Exception) and got.rules == want_rules and got.action == action and got.line_no == 3)
        if not ok:
            ctx.violation("noqa-parse", "noqa comment parsed to a different directive than it spells",
                          {"input": {"comment": text}, "got": repr(got), "want": [action, want_rules]})

    e2e(ctx)
    e2e_no_tree(ctx)

    if not coq_ok:
        return
    lits = ["(%s, %s)" % (coq.cnats(dc), coq.cnats(vc)) for dc, vc in cases]
    model = coq.eval_sharded(["Model.NoQa"], "run_case", lits, shard=2500)
    for (dc, vc), m, r in zip(cases, model, impl):
        mk, mu = m
        mk = [tuple(x) for x in mk]
        if mk != r[0] or sorted(set(mu)) != r[1]:
            ctx.broken_obligation("correspondence Model.NoQa.mask vs IgnoreMask.ignore_masked_violations",
                                  {"directives": [dir_of(c) for c in dc], "violations": [viol_of(c) for c in vc],
                                   "model": [mk, sorted(set(mu))], "impl": r})
            break
    ctx.coverage_extra["exhaustive"] = True
    ctx.coverage_extra["model_vs_impl_cases"] = len(lits)


# ---- end to end: hidden set of a real lint = prediction from the directives written into the file
LINES = [
    ("SELECT a  FROM b", {"LT01"}),
    ("select A from b", set()),
    ("SELECT a from b", {"CP01"}),
    ("SELECT a  from b", {"LT01", "CP01"}),
]
DIRECTIVES = [
    ("", None, None), ("-- noqa", None, "all"), ("-- noqa: LT01", None, {"LT01"}), ("-- noqa: CP01", None, {"CP01"}),
    ("-- noqa: layout.spacing", None, {"LT01"}), ("--noqa: capitalisation", None, {"CP01"}), ("-- noqa: LT0*", None, {"LT01"}),
    ("-- noqa: disable=LT01", "disable", {"LT01"}), ("-- noqa: enable=LT01", "enable", {"LT01"}),
    ("-- noqa: disable=all", "disable", "all"), ("-- noqa:enable=all", "enable", "all"),
    ("/* noqa: disable=CP01 */", "disable", {"CP01"}), ("-- noqa: enable=CP01,LT01", "enable", {"CP01", "LT01"}),
    ("-- noqa: PRS", None, {"PRS"}), ("-- noqa: disable=PRS", "disable", {"PRS"}),
]


def e2e(ctx):
    from sqlfluff.core import FluffConfig, Linter
    # disable_noqa_except: directives naming only non-excepted rules must hide nothing; excepted ones still work
    for d, hidden in [("-- noqa: disable=LT01", set()), ("-- noqa: disable=CP01", {"CP01"}), ("-- noqa: disable=LT01,CP01", {"CP01"}),
                      ("-- noqa: LT01", set()), ("-- noqa: CP01", {"CP01"})]:
        sql = "SELECT a  from b; %s\nSELECT a  from b; %s\n" % (d, d if "disable" not in d else "")
        base = {"dialect": "ansi", "rules": "LT01,CP01", "disable_noqa": True}
        allv = sorted((v.rule_code(), v.line_no) for v in Linter(config=FluffConfig(overrides=base)).lint_string(sql).get_violations())
        got = sorted((v.rule_code(), v.line_no) for v in
                     Linter(config=FluffConfig(overrides=dict(base, disable_noqa_except="CP01"))).lint_string(sql).get_violations())
        want = [x for x in allv if x[0] not in hidden]
        ctx.case(("except", d), bucket="e2e-disable_noqa_except")
        if got != want:
            ctx.violation("noqa-e2e-except", "with disable_noqa_except a directive hides rules it does not (effectively) name",
                          {"input": {"file": sql, "disable_noqa_except": "CP01"}, "all": allv, "reported": got, "expected": want})
    n = 40 if ctx.tier == "quick" else 400
    for k in range(n):
        nl = ctx.rng.choice([2, 3, 4])
        chosen = [(ctx.rng.choice(LINES), ctx.rng.choice(DIRECTIVES)) for _ in range(nl)]
        broken = ctx.rng.random() < 0.25
        text = "".join("%s; %s\n" % (l[0], d[0]) if d[0] else "%s;\n" % l[0] for l, d in chosen)
        if broken:
            text += "SELECT (a from b %s\n" % ctx.rng.choice(["", "-- noqa: PRS", "-- noqa"])
        base = {"dialect": "ansi", "rules": "LT01,CP01"}
        lf_all = Linter(config=FluffConfig(overrides=dict(base, disable_noqa=True))).lint_string(text)
        lf = Linter(config=FluffConfig(overrides=base)).lint_string(text)
        allv = sorted((v.rule_code(), v.line_no, v.line_pos) for v in lf_all.get_violations())
        got = sorted((v.rule_code(), v.line_no, v.line_pos) for v in lf.get_violations())
        # prediction
        dirs = []
        for i, line in enumerate(text.split("\n")):
            for d in DIRECTIVES[1:]:
                if line.endswith(d[0]) and (line.endswith(" " + d[0])):
                    dirs.append((i + 1, d[1], d[2]))
                    break
            else:
                if line.endswith("-- noqa") :
                    dirs.append((i + 1, None, "all"))
        def cov(r, code):
            return r == "all" or code in r
        want = []
        for (code, ln, lp) in allv:
            if any(a is None and l == ln and cov(r, code) for (l, a, r) in dirs):
                continue
            rel = [(l, a) for (l, a, r) in dirs if a is not None and cov(r, code) and l <= ln]
            if rel and rel[-1][1] == "disable":
                continue
            want.append((code, ln, lp))
        ctx.case(("e2e", text), bucket="e2e-file", sample={"file": text, "all": allv, "reported": got} if k == 0 else None)
        if got != want:
            ctx.violation("noqa-e2e", "reported violations differ from (all violations minus those the file's noqa comments hide)",
                          {"input": {"file": text}, "all": allv, "reported": got, "expected": want, "directives": dirs})
        if lf_all.ignore_mask is not None:
            ctx.violation("noqa-off", "disable_noqa left an ignore mask in place", {"input": {"file": text}})


# ---- end to end, files for which there is NO parse tree (fatal templating / parsing failure): the noqa comments are then found by a scan of
# the raw source (IgnoreMask.from_source*), which has to number lines exactly as the templater / lexer number the violations: lines are
# separated by "\n" only (CRLF files: "\r\n"); blank lines count; FF, VT, FS, GS, RS, NEL, LS, PS are ordinary characters inside a line.
ODD = ["\x0c", "\x0b", "\x1c", "\x1d", "\x1e", "\x85", "\u2028", "\u2029"]

# (text of a directive comment, action, rules) -- rules: "all" or a set of codes
NT_DIRECTIVES = [
    ("-- noqa", None, "all"), ("-- noqa: TMP", None, {"TMP"}), ("-- noqa: PRS", None, {"PRS"}), ("--noqa:TMP,PRS", None, {"TMP", "PRS"}),
    ("-- noqa: LT01", None, {"LT01"}), ("-- noqa: PRS,CP01", None, {"PRS", "CP01"}), ("-- some text -- noqa: TMP , LXR", None, {"TMP", "LXR"}),
    ("-- noqa: disable=TMP", "disable", {"TMP"}), ("-- noqa: disable=PRS", "disable", {"PRS"}), ("-- noqa: disable=all", "disable", "all"),
    ("-- noqa: enable=TMP", "enable", {"TMP"}), ("-- noqa: enable=PRS", "enable", {"PRS"}), ("-- noqa: enable=all", "enable", "all"),
    ("-- noqa: disable=TMP,PRS", "disable", {"TMP", "PRS"}), ("-- noqa: disable=LT01", "disable", {"LT01"}),
]
# the failing line: (templater, text before the comment, violation code)
NT_FATAL = [
    ("jinja", "FROM {{ 1 + }}", "TMP"), ("jinja", "{% if %}", "TMP"), ("jinja", "WHERE {% endif %} 1 = 1", "TMP"), ("jinja", "{{ a b }}", "TMP"),
    ("jinja", "FROM t {% for %}", "TMP"), ("raw", "SELECT (a from b", "PRS"), ("raw", "SELECT a FROM t WHERE x IN (1, 2", "PRS"),
    ("raw", "SELECT [a FROM b", "PRS"),
]


def nt_body(rng, templater):
    """One ordinary line (no line feed in it), possibly with odd characters, for above/below the failing line."""
    o = lambda: rng.choice(ODD)
    k = rng.randrange(9)
    if k == 0:
        return ""  # blank line
    if k == 1:
        # visually blank, not empty (FS/GS/RS outside a comment/literal do not lex: with the raw templater that gives a tree after all)
        w = rng.choice(ODD if templater == "jinja" else ["\x0c", "\x0b", "\x85", "\u2028", "\u2029"])
        return rng.choice([" ", "\t", w, "  " + w])
    if k == 2:
        return "-- legacy report %s page %d" % (o(), rng.randrange(9))
    if k == 3:
        return "SELECT 'a%sb' AS c%s;" % (o(), o() if rng.random() < 0.3 else "")
    if k == 4:
        return "SELECT a,%s b FROM t;" % rng.choice(["\x0c", "\x0b", "\u2028"])
    if k == 5:
        return "/* %s%s */" % (o(), o())
    if k == 6 and templater == "jinja":
        return "{# %s #}SELECT {{ 1 }};" % o()
    return rng.choice(["SELECT 1;", "SELECT a FROM b;", "select A  from b;"])


def nt_predict(dirs, allv):
    """dirs: [(line, action, rules)], allv: [(code, line, pos)] -> (visible violations, set of lines of directives that hid something).
    Written from the property text; at most one directive per line here, so a line number identifies a directive."""
    cov = lambda r, code: r == "all" or code in r
    want, used = [], set()
    for (code, ln, lp) in allv:
        plain = [l for (l, a, r) in dirs if a is None and l == ln and cov(r, code)]
        if plain:
            used.add(plain[0])
            continue
        rel = sorted((l, a) for (l, a, r) in dirs if a is not None and cov(r, code) and l <= ln)
        if rel and rel[-1][1] == "disable":
            used.add(rel[-1][0])
            continue
        want.append((code, ln, lp))
    return want, used


def e2e_no_tree(ctx):
    import json
    import os
    import shutil
    import tempfile
    from sqlfluff.core import FluffConfig, Linter
    n = 70 if ctx.tier == "quick" else 500
    ncli = 4 if ctx.tier == "quick" else 40
    tmp = tempfile.mkdtemp(prefix="c20_", dir=os.environ.get("TMPDIR") or "/var/tmp")
    linters = {}

    def linter(templater, noqa_off):
        if (templater, noqa_off) not in linters:
            ov = {"dialect": "ansi", "templater": templater, "rules": "LT01,CP01"}
            if noqa_off:
                ov["disable_noqa"] = True
            linters[templater, noqa_off] = Linter(config=FluffConfig(overrides=ov))
        return linters[templater, noqa_off]

    try:
        for k in range(n):
            rng = ctx.rng
            templater, fatal, vcode = rng.choice(NT_FATAL)
            eol = rng.choice(["\n", "\n", "\r\n"])
            lines, dirs = [], []
            nabove = rng.choice([1, 1, 2, 3, 4, 6])
            for _ in range(nabove):
                body = nt_body(rng, templater)
                if rng.random() < 0.3:
                    d = rng.choice(NT_DIRECTIVES)
                    # a comment-only line or a trailing comment
                    body = d[0] if (body.startswith(("--", "/*")) or rng.random() < 0.3) else (body + " " + d[0])
                    dirs.append((len(lines) + 1, d[1], d[2]))
                lines.append(body)
            if rng.random() < 0.75:
                d = rng.choice(NT_DIRECTIVES[:7] if rng.random() < 0.8 else NT_DIRECTIVES)
                dirs.append((len(lines) + 1, d[1], d[2]))
                lines.append(fatal + " " + d[0] + rng.choice(["", " ", rng.choice(ODD)]))
            else:
                lines.append(fatal)
            fatal_line = len(lines)
            for _ in range(rng.choice([0, 0, 1, 2])):
                body = nt_body(rng, templater)
                if rng.random() < 0.5:
                    d = rng.choice(NT_DIRECTIVES)
                    body = d[0] if body.startswith(("--", "/*")) else (body + " " + d[0])
                    dirs.append((len(lines) + 1, d[1], d[2]))
                lines.append(body)
            assert all("\n" not in l and "\r" not in l for l in lines)
            text = eol.join(lines) + rng.choice([eol, ""])
            feats = sorted({"blank" if any(l == "" for l in lines[:fatal_line - 1]) else "",
                            "odd" if any(c in l for l in lines[:fatal_line - 1] for c in ODD) else "",
                            "crlf" if eol == "\r\n" else ""} - {""})
            for entry in ("path", "string") + (("cli",) if k < ncli else ()):
                inp = {"file": text, "templater": templater, "entry": entry, "rules": "LT01,CP01", "dialect": "ansi"}
                if entry == "cli":
                    got_cli = nt_cli(tmp, text, templater)
                    if got_cli is None:
                        ctx.broken_obligation("harness: CLI lint of a no-tree file gave no JSON", inp)
                        continue
                    allv, got, unused, tree = got_cli
                else:
                    if entry == "path":
                        path = os.path.join(tmp, "f%d.sql" % k)
                        with open(path, "wb") as f:
                            f.write(text.encode("utf-8"))
                        lf_all = linter(templater, True).lint_path(path).files[0]
                        lf = linter(templater, False).lint_path(path).files[0]
                        os.remove(path)
                    else:
                        lf_all = linter(templater, True).lint_string(text)
                        lf = linter(templater, False).lint_string(text)
                    tree = lf.tree is not None
                    allv = sorted((v.rule_code(), v.line_no, v.line_pos) for v in lf_all.get_violations())
                    got = sorted((v.rule_code(), v.line_no, v.line_pos) for v in lf.get_violations())
                    unused = sorted(v.line_no for v in lf.get_violations(filter_warning=False, warn_unused_ignores=True)
                                    if v.rule_code() == "NOQA")
                    if lf_all.ignore_mask is not None:
                        ctx.violation("noqa-off", "disable_noqa left an ignore mask in place", {"input": inp})
                want, used = nt_predict(dirs, allv)
                on_line = any(l == fatal_line for (l, a, r) in dirs)
                ctx.case(("e2e-nt", entry, text), bucket="e2e-no-tree-" + entry,
                         sample={"file": text, "entry": entry, "all": allv, "reported": got} if k == 1 and entry == "path" else None)
                for f_ in feats:
                    ctx.count("e2e-no-tree-feature-" + f_)
                if tree or not any(c == vcode and l == fatal_line for (c, l, p) in allv):
                    # the generator's intent (fatal failure reported on the line it was written on, no tree) did not materialise
                    ctx.count("e2e-no-tree-unintended")
                    if tree:
                        continue
                attrs = {"no_tree": True, "directive_on_failing_line": on_line}
                if got != want:
                    ctx.violation("noqa-e2e-source", "file without a parse tree: reported violations differ from (all violations minus those "
                                  "the noqa comments on the violations' own source lines / the range directives above hide)",
                                  {"input": inp, "all": allv, "reported": got, "expected": want, "directives(line,action,rules)": dirs,
                                   "features": feats}, attrs=attrs)
                    continue
                # unused-noqa warnings exactly for the (plain / disable) directives that hid nothing
                want_unused = sorted(l for (l, a, r) in dirs if a != "enable" and l not in used)
                enable_lines = {l for (l, a, r) in dirs if a == "enable"}
                got_unused = [l for l in unused if l not in enable_lines]
                if got_unused != want_unused:
                    ctx.violation("noqa-e2e-source-unused", "file without a parse tree: unused-noqa warnings are not exactly those for the "
                                  "directives that hid nothing", {"input": inp, "all": allv, "unused_warning_lines": unused,
                                                                  "expected_lines": want_unused, "directives(line,action,rules)": dirs,
                                                                  "features": feats}, attrs=attrs)
    finally:
        shutil.rmtree(tmp, ignore_errors=True)


def nt_cli(tmp, text, templater):
    """`sqlfluff lint --warn-unused-ignores` (and once more with --disable-noqa) on a real file; the human format is read because the
    JSON/YAML formats never carry unused-noqa warnings."""
    import os
    import re
    from click.testing import CliRunner
    from sqlfluff.cli.commands import lint
    path = os.path.join(tmp, "cli.sql")
    with open(path, "wb") as f:
        f.write(text.encode("utf-8"))
    out = []
    try:
        for extra in (["--disable-noqa"], ["--warn-unused-ignores"]):
            r = CliRunner().invoke(lint, [path, "--dialect", "ansi", "--templater", templater, "--rules", "LT01,CP01", "--nocolor",
                                          "--ignore-local-config"] + extra)
            if r.exception is not None and not isinstance(r.exception, SystemExit):
                return None
            out.append([(m.group(3), int(m.group(1)), int(m.group(2)))
                        for m in re.finditer(r"^L:\s*(\d+) \| P:\s*(\d+) \|\s*(\w+) \|", r.output, re.M)])
    finally:
        os.remove(path)
    allv = sorted(out[0])
    got = sorted(v for v in out[1] if v[0] != "NOQA")
    unused = sorted(v[1] for v in out[1] if v[0] == "NOQA")
    return allv, got, unused, False
