"""C20 — noqa directives suppress exactly the specified violations."""
import itertools

from harness import coq

LEVEL = "proof"
COQ_TARGETS = ["theories/Properties/C20.vo"]
PROPERTY_FILES = ["theories/Properties/C20.v"]
RULE = ("small scope: directive alphabet = lines 1-3 x {plain, disable, enable} x rules {None, (A), (B), (), (A,B)} (45 forms), violation "
        "alphabet = codes {A,B,C} x lines 1-3; every list of <=2 directives x <=1 violations and <=1 directive x 2 violations exhaustively, "
        "plus seeded random 3-directive / 2-3-violation cases; comment-text parsing on generated directive texts; end-to-end files incl. "
        "parse/template failures. non-trivial = some directive's line/rules interact with some violation; distinct = distinct case")
ASSUMPTIONS = ["Python sorted() is stable", "violation identity abstracted to (code, line); directive identity to its index"]
TRUSTED_BASE = ["hand model Model/NoQa.v of IgnoreMask.ignore_masked_violations / used flags; comment parsing (_parse_noqa) is not in the Coq "
                "model: it is checked against a by-construction oracle only"]

RULES = [None, ("A",), ("B",), (), ("A", "B")]
ACTIONS = [None, "disable", "enable"]
CODES = ["A", "B", "C"]


def dir_of(c):
    return (1 + c // 15, RULES[c % 5], ACTIONS[(c // 5) % 3])


def viol_of(c):
    return (CODES[c % 3], 1 + c // 3)


_cls = {}


def mkviol(code, line):
    from sqlfluff.core.errors import SQLBaseError
    if code not in _cls:
        _cls[code] = type("V_" + code, (SQLBaseError,), {"_code": code})
    return _cls[code]("d", line_no=line, line_pos=1)


def impl_case(dcodes, vcodes):
    from sqlfluff.core.rules.noqa import IgnoreMask, NoQaDirective
    ds = [NoQaDirective(l, 1, r, a, "x") for (l, r, a) in map(dir_of, dcodes)]
    vs = [mkviol(*viol_of(c)) for c in vcodes]
    out = IgnoreMask(ds).ignore_masked_violations(vs)
    return [(CODES.index(v.rule_code()), v.line_no) for v in out], [i for i, d in enumerate(ds) if d.used]


# ---- the property's own words, as an oracle over the implementation's output
def covers(rules, code):
    return rules is None or code in rules


def oracle(dcodes, vcodes):
    ds = [dir_of(c) for c in dcodes]
    vs = [viol_of(c) for c in vcodes]
    kept = []
    used = set()
    survivors = []
    for (code, line) in vs:
        hit = [i for i, (l, r, a) in enumerate(ds) if a is None and l == line and covers(r, code)]
        if hit:
            used.add(hit[0])  # the first matching plain directive takes the credit
        else:
            survivors.append((code, line))
    for (code, line) in survivors:
        rel = sorted([(l, i) for i, (l, r, a) in enumerate(ds) if a is not None and covers(r, code) and l <= line])
        if rel and ds[rel[-1][1]][2] == "disable":
            used.add(rel[-1][1])
        else:
            kept.append((CODES.index(code), line))
    return kept, used


def interacts(dcodes, vcodes):
    ds = [dir_of(c) for c in dcodes]
    vs = [viol_of(c) for c in vcodes]
    return any(covers(r, code) and (l == line if a is None else l <= line) for (l, r, a) in ds for (code, line) in vs)


def check_case(ctx, dcodes, vcodes, res):
    kept, used = res
    okept, oused = oracle(dcodes, vcodes)
    inp = {"directives(line,rules,action)": [dir_of(c) for c in dcodes], "violations(code,line)": [viol_of(c) for c in vcodes]}
    has_empty = any(dir_of(c)[1] == () and dir_of(c)[2] is not None for c in dcodes)
    if kept != okept:
        ctx.violation("noqa-mask", "a violation is hidden/shown contrary to the noqa directives",
                      {"input": inp, "impl_kept": kept, "spec_kept": okept},
                      attrs={"empty_rule_tuple_range_directive": has_empty})
    else:
        # unused-warning exactness for plain and disable directives
        for i, c in enumerate(dcodes):
            if dir_of(c)[2] != "enable" and ((i in used) != (i in oused)):
                ctx.violation("noqa-used", "unused-noqa bookkeeping wrong for a plain/disable directive",
                              {"input": inp, "impl_used": used, "spec_used": sorted(oused)},
                              attrs={"empty_rule_tuple_range_directive": has_empty})


# ---- comment text parsing: directives generated with a known meaning
def gen_comment(rng, refmap_keys):
    action = rng.choice([None, None, "disable", "enable"])
    if rng.random() < 0.15:
        refs = None
    else:
        refs = [rng.choice(refmap_keys + ["PRS", "TMP", "LXR", "LT0*", "capitalisation.*", "L0?", "zz"]) for _ in range(rng.choice([1, 1, 2, 3]))]
    sp = lambda: rng.choice(["", " ", "  "])
    body = "noqa"
    if refs is None and action is None and rng.random() < 0.5:
        pass
    else:
        body += ":" + sp()
        if action:
            body += action + "="
        body += (sp() + "," + sp()).join(refs) if refs is not None else "all"
    style = rng.choice(["inline", "inline2", "block"])
    if style == "inline":
        text = "--" + sp() + body + sp()
    elif style == "inline2":
        text = "-- some text --" + sp() + body
    else:
        text = "/*" + sp() + body + sp() + "*/"
    return text, action, refs


def run(ctx, coq_ok):
    import fnmatch

    cases = []
    D = range(45)
    V = range(9)
    for nd in (0, 1, 2):
        for ds in itertools.product(D, repeat=nd):
            for nv in (0, 1):
                for vs in itertools.product(V, repeat=nv):
                    cases.append((list(ds), list(vs)))
    for nd in (0, 1):
        for ds in itertools.product(D, repeat=nd):
            for vs in itertools.product(V, repeat=2):
                cases.append((list(ds), list(vs)))
    nrand = 6000 if ctx.tier == "quick" else 150000
    for _ in range(nrand):
        nd = ctx.rng.choice([2, 3, 3, 4])
        nv = ctx.rng.choice([2, 2, 3])
        cases.append(([ctx.rng.randrange(45) for _ in range(nd)], [ctx.rng.randrange(9) for _ in range(nv)]))
    impl = []
    for dc, vc in cases:
        r = impl_case(dc, vc)
        impl.append(r)
        nt = interacts(dc, vc)
        ctx.case((tuple(dc), tuple(vc)) if nt else None, bucket="d%d,v%d" % (len(dc), len(vc)),
                 sample={"directives": [dir_of(c) for c in dc], "violations": [viol_of(c) for c in vc], "kept": r[0], "used": r[1]} if nt and len(dc) >= 3 else None)
        check_case(ctx, dc, vc, r)

    # comment parsing against by-construction meaning
    from sqlfluff.core import FluffConfig, Linter
    from sqlfluff.core.rules.noqa import IgnoreMask
    lnt = Linter(config=FluffConfig(overrides={"dialect": "ansi"}))
    refmap = lnt.get_rulepack().reference_map
    keys = sorted(refmap.keys())
    npar = 400 if ctx.tier == "quick" else 4000
    for _ in range(npar):
        text, action, refs = gen_comment(ctx.rng, keys)
        content = text
        if content.startswith("/*"):
            content = content[2:-2].strip()
        else:
            content = content.strip()
        got = IgnoreMask._parse_noqa(content, 3, 7, refmap)
        if refs is None or refs == ["all"]:
            want_rules = None
        else:
            exp = set()
            for r in refs:
                ks = fnmatch.filter(keys, r)
                if ks:
                    for k in ks:
                        exp |= refmap[k]
                else:
                    exp.add(r)
            want_rules = tuple(sorted(exp))
        ctx.case(("parse", text), bucket="comment-parse")
        ok = (got is not None and not isinstance(got, Exception) and got.rules == want_rules and got.action == action and got.line_no == 3)
        if not ok:
            ctx.violation("noqa-parse", "noqa comment parsed to a different directive than it spells",
                          {"input": {"comment": text}, "got": repr(got), "want": [action, want_rules]})

    e2e(ctx)

    if not coq_ok:
        return
    lits = ["(%s, %s)" % (coq.cnats(dc), coq.cnats(vc)) for dc, vc in cases]
    model = coq.eval_sharded(["Model.NoQa"], "run_case", lits, shard=2500)
    for (dc, vc), m, r in zip(cases, model, impl):
        mk, mu = m
        mk = [tuple(x) for x in mk]
        if mk != r[0] or sorted(set(mu)) != r[1]:
            ctx.broken_obligation("correspondence Model.NoQa.mask vs IgnoreMask.ignore_masked_violations",
                                  {"directives": [dir_of(c) for c in dc], "violations": [viol_of(c) for c in vc],
                                   "model": [mk, sorted(set(mu))], "impl": r})
            break
    ctx.coverage_extra["exhaustive"] = True
    ctx.coverage_extra["model_vs_impl_cases"] = len(lits)


# ---- end to end: hidden set of a real lint = prediction from the directives written into the file
LINES = [
    ("SELECT a  FROM b", {"LT01"}),
    ("select A from b", set()),
    ("SELECT a from b", {"CP01"}),
    ("SELECT a  from b", {"LT01", "CP01"}),
]
DIRECTIVES = [
    ("", None, None), ("-- noqa", None, "all"), ("-- noqa: LT01", None, {"LT01"}), ("-- noqa: CP01", None, {"CP01"}),
    ("-- noqa: layout.spacing", None, {"LT01"}), ("--noqa: capitalisation", None, {"CP01"}), ("-- noqa: LT0*", None, {"LT01"}),
    ("-- noqa: disable=LT01", "disable", {"LT01"}), ("-- noqa: enable=LT01", "enable", {"LT01"}),
    ("-- noqa: disable=all", "disable", "all"), ("-- noqa:enable=all", "enable", "all"),
    ("/* noqa: disable=CP01 */", "disable", {"CP01"}), ("-- noqa: enable=CP01,LT01", "enable", {"CP01", "LT01"}),
    ("-- noqa: PRS", None, {"PRS"}), ("-- noqa: disable=PRS", "disable", {"PRS"}),
]


def e2e(ctx):
    from sqlfluff.core import FluffConfig, Linter
    # disable_noqa_except: directives naming only non-excepted rules must hide nothing; excepted ones still work
    for d, hidden in [("-- noqa: disable=LT01", set()), ("-- noqa: disable=CP01", {"CP01"}), ("-- noqa: disable=LT01,CP01", {"CP01"}),
                      ("-- noqa: LT01", set()), ("-- noqa: CP01", {"CP01"})]:
        sql = "SELECT a  from b; %s\nSELECT a  from b; %s\n" % (d, d if "disable" not in d else "")
        base = {"dialect": "ansi", "rules": "LT01,CP01", "disable_noqa": True}
        allv = sorted((v.rule_code(), v.line_no) for v in Linter(config=FluffConfig(overrides=base)).lint_string(sql).get_violations())
        got = sorted((v.rule_code(), v.line_no) for v in
                     Linter(config=FluffConfig(overrides=dict(base, disable_noqa_except="CP01"))).lint_string(sql).get_violations())
        want = [x for x in allv if x[0] not in hidden]
        ctx.case(("except", d), bucket="e2e-disable_noqa_except")
        if got != want:
            ctx.violation("noqa-e2e-except", "with disable_noqa_except a directive hides rules it does not (effectively) name",
                          {"input": {"file": sql, "disable_noqa_except": "CP01"}, "all": allv, "reported": got, "expected": want})
    n = 40 if ctx.tier == "quick" else 400
    for k in range(n):
        nl = ctx.rng.choice([2, 3, 4])
        chosen = [(ctx.rng.choice(LINES), ctx.rng.choice(DIRECTIVES)) for _ in range(nl)]
        broken = ctx.rng.random() < 0.25
        text = "".join("%s; %s\n" % (l[0], d[0]) if d[0] else "%s;\n" % l[0] for l, d in chosen)
        if broken:
            text += "SELECT (a from b %s\n" % ctx.rng.choice(["", "-- noqa: PRS", "-- noqa"])
        base = {"dialect": "ansi", "rules": "LT01,CP01"}
        lf_all = Linter(config=FluffConfig(overrides=dict(base, disable_noqa=True))).lint_string(text)
        lf = Linter(config=FluffConfig(overrides=base)).lint_string(text)
        allv = sorted((v.rule_code(), v.line_no, v.line_pos) for v in lf_all.get_violations())
        got = sorted((v.rule_code(), v.line_no, v.line_pos) for v in lf.get_violations())
        # prediction
        dirs = []
        for i, line in enumerate(text.split("\n")):
            for d in DIRECTIVES[1:]:
                if line.endswith(d[0]) and (line.endswith(" " + d[0])):
                    dirs.append((i + 1, d[1], d[2]))
                    break
            else:
                if line.endswith("-- noqa") :
                    dirs.append((i + 1, None, "all"))
        def cov(r, code):
            return r == "all" or code in r
        want = []
        for (code, ln, lp) in allv:
            if any(a is None and l == ln and cov(r, code) for (l, a, r) in dirs):
                continue
            rel = [(l, a) for (l, a, r) in dirs if a is not None and cov(r, code) and l <= ln]
            if rel and rel[-1][1] == "disable":
                continue
            want.append((code, ln, lp))
        ctx.case(("e2e", text), bucket="e2e-file", sample={"file": text, "all": allv, "reported": got} if k == 0 else None)
        if got != want:
            ctx.violation("noqa-e2e", "reported violations differ from (all violations minus those the file's noqa comments hide)",
                          {"input": {"file": text}, "all": allv, "reported": got, "expected": want, "directives": dirs})
        if lf_all.ignore_mask is not None:
            ctx.violation("noqa-off", "disable_noqa left an ignore mask in place", {"input": {"file": text}})
