"""C08 — Jinja rendering fidelity: linted SQL is what Jinja renders."""
from harness import coq, corpus

LEVEL = "proof"
COQ_TARGETS = ["theories/Properties/C08.vo"]
PROPERTY_FILES = ["theories/Properties/C08.v"]
RULE = ("(1) correspondence of Model/JinjaFast.v: has_marker vs the templater's re.search on exhaustive strings over {'{','%','#','}','a',LF} up to length 6 "
        "(quick: 4) and random ones; normalise_newlines vs Linter._normalise_newlines on exhaustive strings over {CR,LF,'a'}; (2) differential "
        "rendering: the primary variant's templated_str from the real JinjaTemplater vs a plain `env.from_string(source, globals=context).render()` "
        "built from the same environment/context helpers, for generated templates x 2 contexts, marker-free files (fast path) incl. lone braces, "
        "trailing newlines / no trailing newline / CRLF, whitespace control, undefined variables with and without ignore=templating. "
        "non-trivial = template with markup or a marker-free text containing '{' or CR; distinct by (source, context)")
ASSUMPTIONS = ["PARTIAL: Jinja2 is an oracle (its own render of the same source is the arbiter)",
               "the environment built by _get_jinja_env uses the default delimiters and keep_trailing_newline=True (checked at run time)"]
TRUSTED_BASE = ["hand model Model/JinjaFast.v", "the plain-Jinja reference render in this module"]


def ref_case(source, ctx_idx, ignore_templating):
    """-> (sqlfluff primary rendering | None, plain jinja rendering | 'ERR:..', fatal?)"""
    import logging
    logging.disable(logging.CRITICAL)
    from sqlfluff.core import FluffConfig, Linter
    from harness import corpus as C
    over = {"dialect": "ansi", "templater": "jinja"}
    if ignore_templating:
        over["ignore"] = "templating"
    cfg = FluffConfig(configs={"core": {}, "templater": {"jinja": {"context": C.JINJA_CONTEXTS[ctx_idx]}}}, overrides=over)
    lnt = Linter(config=cfg)
    out = {"sf": None, "ref": None, "tmp": 0, "env_ok": True, "exc": None}
    try:
        rendered = lnt.render_string(source, fname="t.sql", config=cfg, encoding="utf-8")
        out["tmp"] = len(rendered.templater_violations)
        if rendered.templated_variants:
            out["sf"] = rendered.templated_variants[0].templated_str
        src = rendered.source_str  # after newline normalisation
        tpl = lnt.templater
        env, live_context, render_func = tpl.construct_render_func(fname="t.sql", config=cfg)
        out["env_ok"] = (env.block_start_string, env.variable_start_string, env.comment_start_string, env.keep_trailing_newline,
                         env.line_statement_prefix, env.line_comment_prefix) == ("{%", "{{", "{#", True, None, None)
        try:
            # the context sqlfluff itself renders with: undefined variables are replaced by recording stubs (and reported as TMP)
            from jinja2 import meta
            undeclared = meta.find_undeclared_variables(env.parse(src))
            tpl._init_undefined_tracking(live_context, undeclared, ignore_templating=ignore_templating)
            out["ref"] = env.from_string(src, globals=live_context).render()
        except Exception as e:  # noqa
            out["ref"] = "ERR:" + type(e).__name__
    except BaseException as e:  # noqa
        from harness.crashcheck import _exc_info
        out["exc"] = _exc_info(e)
    return out


def run(ctx, coq_ok):
    import itertools
    import re
    from sqlfluff.core import Linter
    rng = ctx.rng
    # ---------- (1) model correspondence
    L = 4 if ctx.tier == "quick" else 6
    alpha = ["{", "%", "#", "}", "a", "\n"]
    strs = ["".join(t) for n in range(L + 1) for t in itertools.product(alpha, repeat=n)]
    impl = [bool(re.search(r"\{[{%#]", s)) for s in strs]
    nl_alpha = ["\r", "\n", "a"]
    nstrs = ["".join(t) for n in range(7 if ctx.tier == "quick" else 9) for t in itertools.product(nl_alpha, repeat=n)]
    nimpl = [Linter._normalise_newlines(s) for s in nstrs]
    for s in strs:
        ctx.case(("marker", s) if "{" in s else None, bucket="marker-scan")
    for s in nstrs:
        ctx.case(("nl", s) if "\r" in s else None, bucket="newline-normalise")
    # the regex text in the source must still be the one modelled
    import inspect
    import sqlfluff.core.templaters.jinja as jmod
    src_text = inspect.getsource(jmod)
    if r're.search(r"\{[{%#]", in_str)' not in src_text:
        ctx.broken_obligation("translator: the fast-path test in JinjaTemplater.process is no longer re.search(r\"\\{[{%#]\", in_str)", "(module source)")
    if coq_ok:
        m = coq.eval_sharded(["Model.JinjaFast"], "has_marker", [coq.ctext(s) for s in strs], shard=500)
        for s, a, b in zip(strs, m, impl):
            if a != b:
                ctx.broken_obligation("correspondence Model.JinjaFast.has_marker vs re.search", {"input": s, "model": a, "impl": b})
                break
        m2 = coq.eval_sharded(["Model.JinjaFast"], "normalise_newlines", [coq.ctext(s) for s in nstrs], shard=500)
        for s, a, b in zip(nstrs, m2, nimpl):
            if "".join(chr(c) for c in a) != b:
                ctx.broken_obligation("correspondence Model.JinjaFast.normalise_newlines vs Linter._normalise_newlines", {"input": s, "model": a, "impl": b})
                break
        ctx.coverage_extra["model_vs_impl_cases"] = len(strs) + len(nstrs)
    # ---------- (2) differential rendering
    jobs = []
    nt = 100 if ctx.tier == "quick" else 1200
    for i in range(nt):
        jobs.append((corpus.gen_jinja(rng), i % 2, i % 5 == 0))
    plain = ["SELECT 1\n", "SELECT 1", "SELECT '{' , '}' FROM t\n", "SELECT { a } FROM t\n\n", "SELECT a\r\nFROM t\r\n", "SELECT a\rFROM t", "{ {x} }\n", "a{", "{", "}}\n",
             "SELECT '}}' -- {\n", "\n", "\n\n", "  ", "SELECT a -- {{ not closed\n", "a{#", "select 1 {#-", "#}a{#", "select {{ col }} {#", "SELECT {# c #} 1\n", "{%- if flag -%}\n a \n{%- endif -%}\n", "SELECT {{ col }}\n\n\n",
             "{{ undefined_thing }}", "SELECT {{ undefined_thing.attr }} FROM t\n", "{% for x in undefined_list %}{{ x }}{% endfor %}\n", "{% set z = 1 %}{{ z }}"]
    for s in plain:
        for c in (0, 1):
            for ig in (False, True):
                jobs.append((s, c, ig))
    for _ in range(nt // 2):
        s = "".join(rng.choice(["{", "}", " ", "\n", "a", "'", "%", "#", "-", "\r\n"]) for _ in range(rng.randrange(1, 25)))
        jobs.append((s, 0, False))
    for (src, ci, ig), st, res in corpus.pmap("harness.props.c08", "ref_case", jobs):
        if st != "ok":
            ctx.broken_obligation("harness worker crashed", res)
            continue
        marker = bool(re.search(r"\{[{%#]", src))
        nontriv = marker or "{" in src or "\r" in src
        ctx.case((src, ci, ig) if nontriv else None, bucket="%s:%s" % ("markup" if marker else "fast-path", "rendered" if res["sf"] is not None else "no-variant"),
                 sample={"source": src[:120], "context": ci, "primary_rendering": (res["sf"] or "")[:80]} if marker and res["sf"] and len(ctx.samples) < 4 else None)
        inp = {"source": src, "context": ci, "ignore_templating": ig}
        if res["exc"]:
            e = res["exc"]
            ctx.violation("render-raises", "render_string raises %s (%s) in %s" % (e["exc_type"], e["msg"], e["frame"]), {"input": inp, "trace": e["trace"]},
                          attrs={"exc_type": e["exc_type"], "frame": e["frame"]})
            continue
        if not res["env_ok"]:
            ctx.broken_obligation("assumption: jinja environment uses default delimiters / keep_trailing_newline", inp)
        if res["sf"] is None:
            # no primary rendering: must be because Jinja itself failed, or a templating error was reported
            if not str(res["ref"]).startswith("ERR:") and res["tmp"] == 0:
                ctx.violation("no-rendering", "Jinja renders the template but sqlfluff produced no rendering and no TMP error", {"input": inp, "jinja": res["ref"]})
            continue
        if str(res["ref"]).startswith("ERR:"):
            continue  # plain Jinja (strict undefined etc.) fails where sqlfluff's context stubs let it pass: no arbiter
        if res["sf"] != res["ref"]:
            ctx.violation("rendering-differs", "sqlfluff lints %r but Jinja renders %r" % (res["sf"][:60], res["ref"][:60]), {"input": inp, "sqlfluff": res["sf"], "jinja": res["ref"]},
                          attrs={"fast_path": not marker})
    ctx.coverage_extra["renderings_compared"] = len(jobs)
