"""C09 — Python-format and placeholder templaters render faithfully."""
import itertools
import re
import string
import _string

from harness import coq

LEVEL = "proof"
COQ_TARGETS = ["theories/Properties/C09.vo"]
PROPERTY_FILES = ["theories/Properties/C09.v"]
RULE = ("python templater: every string over {'{','}','a','.',':','!',' '} up to length 4 (quick) / 5 plus, with '[' ']', up to 4 (thorough); "
        "a fixed grid (20 names x 5 conversions x 18 specs, 15 prefixes x 7 fields x 10 suffixes, one representative per known mechanism); "
        "seeded random format strings biased to be valid (escaped braces, conversions, type-appropriate specs with fill/whitespace/nested "
        "fields, dotted / indexed / missing names, adjacent fields, context with and without the `sqlfluff` mapping); a malformed stream "
        "(brace soup, positional/empty fields). Every case goes through the real PythonTemplater.process (render_func and re.sub result "
        "captured), CPython's str.format and formatter_parser, an independent string.Formatter arbiter with the dotted-name convention, and "
        "(all of them in thorough; in quick the exhaustive strings up to length 3, every second of length 4 and every fourth other case) the Coq model with oracle tables recorded "
        "from CPython. placeholder templater: for each of the 12 KNOWN_STYLES, SQL assembled from literal pieces and 0-6 parameters written "
        "in that style (named / numeric / positional, quoted, braced, repeated, at both ends, unicode names, `x::int` casts), with full / "
        "partial / empty value tables (str and non-str values, override_context and config section), checked against the by-construction "
        "expectation and a slice-tiling oracle; names colliding with context keys; random sigil strings through the real regexes; the loop "
        "driven by a fake regex on every list of <= 2 spans over a 4-char source (sorted and malformed) x 5 group shapes; all of these also "
        "through the Coq model. non-trivial = python case with a field whose name has a '.', or placeholder case with >= 1 parameter; "
        "distinct = distinct (source, context/values)")
ASSUMPTIONS = [
    "format(value, spec), repr/str/ascii, attribute and item lookup of context values are oracles (tables recorded from CPython per case); "
    "KeyError keys are strings; no NUL conversion character; field-name digits are ASCII",
    "the python templater is modelled on its default path (no `ignore = templating` fallback dict); the literal/templated slicing of "
    "PythonTemplater (slice_file heuristics) is not modelled: its effect on templated_str is monitored end to end",
    "regex.finditer is an oracle for the placeholder templater: the model receives the real matches; sortedness and non-overlap of "
    "the spans are checked on every shipped match list",
    "membership in the fragment of C09_dot_hack_correct_partial is decided by a Python mirror of safe_list, compared with Coq's safe_list on a sample",
]
TRUSTED_BASE = ["hand models Model/PyFormat.v (re.sub dot hack, str.format grammar and field lookup) and Model/Placeholder.v (process loop)",
                "CPython 3.12 str.format / string.Formatter as the arbiter of what a valid format string renders to"]

DOT_PATTERN = r"{([^:}]*\.[^:}]*)(:\S*)?}"
DOT_REPL = r"{sqlfluff[\1]\2}"


# ==============================================================================================================
# Part A — python templater
# ==============================================================================================================

def ekind(e):
    from sqlfluff.core.errors import SQLTemplaterError
    if isinstance(e, SQLTemplaterError):
        return "ETemplater"
    if isinstance(e, KeyError):
        return "EKey"
    if isinstance(e, IndexError):
        return "EIndex"
    if isinstance(e, ValueError):
        return "EValue"
    return "ERuntime"


class Oracle:
    """Value table + recorded oracle answers (attribute / item lookup, conversion, format) for one context."""

    def __init__(self, ctx):
        self.vals = []
        self.index = {}
        self.kw = {k: self.intern(v) for k, v in ctx.items()}
        self.attr, self.iint, self.istr, self.conv, self.fmt = {}, {}, {}, {}, {}

    def intern(self, v):
        key = (type(v).__name__, repr(v))
        if key not in self.index:
            self.index[key] = len(self.vals)
            self.vals.append(v)
        return self.index[key]

    def _q(self, table, key, thunk, is_text=False):
        try:
            r = thunk()
        except Exception as e:
            table[key] = ("err", ekind(e))
            raise
        table[key] = ("ok", r if is_text else self.intern(r))
        return table[key][1]

    # the mirror of Model/PyFormat.v used only to find out which oracle questions the model will ask
    def get_field(self, name, mode):
        if mode == "spec" and "." in name and "[" not in name and "]" not in name:
            if "sqlfluff" not in self.kw:
                raise KeyError("sqlfluff")
            v = self.kw["sqlfluff"]
            return self._q(self.istr, (v, name), lambda: self.vals[v][name])
        first, rest = _string.formatter_field_name_split(name)
        if isinstance(first, int) or first == "":
            raise IndexError(first)
        if first not in self.kw:
            raise KeyError(first)
        v = self.kw[first]
        for is_attr, key in rest:
            if is_attr:
                v = self._q(self.attr, (v, key), lambda: getattr(self.vals[v], key))
            elif isinstance(key, int):
                v = self._q(self.iint, (v, key), lambda: self.vals[v][key])
            else:
                v = self._q(self.istr, (v, key), lambda: self.vals[v][key])
        return v

    def build(self, s, depth, mode):
        if depth == 0:
            raise ValueError("Max string recursion exceeded")
        out = []
        for lit, name, spec, conv in _string.formatter_parser(s):
            out.append(lit)
            if name is None:
                continue
            v = self.get_field(name, mode)
            if conv is not None and conv != "\0":
                if conv not in "rsa":
                    raise ValueError("Unknown conversion specifier")
                f = {"r": repr, "s": str, "a": ascii}[conv]
                v = self._q(self.conv, (conv, v), lambda: f(self.vals[v]))
            if "{" in spec:
                spec = self.build(spec, depth - 1, mode)
            out.append(self._q(self.fmt, (v, spec), lambda: format(self.vals[v], spec), is_text=True))
        return "".join(out)

    def record(self, s, hacked):
        for text, mode in ((hacked, "plain"), (s, "spec"), (s, "plain")):
            try:
                self.build(text, 2, mode)
            except Exception:
                pass

    def kw_coq(self):
        return coq.clist(["(%s, %d)" % (coq.ctext(k), v) for k, v in self.kw.items()])

    # Coq literal of the tables
    def coq(self, kwname=None):
        def res_nat(r):
            return "(Ok %d)" % r[1] if r[0] == "ok" else "(Err %s)" % r[1]

        def res_text(r):
            return "(Ok %s)" % coq.ctext(r[1]) if r[0] == "ok" else "(@Err text %s)" % r[1]

        def lst(items, ty):
            return coq.clist(items) if items else "(@nil (%s))" % ty

        kw = self.kw_coq() if kwname is None else kwname
        attr = lst(["(%d, %s, %s)" % (v, coq.ctext(k), res_nat(r)) for (v, k), r in self.attr.items()], "nat * text * res nat")
        iint = lst(["(%d, %d%%N, %s)" % (v, k, res_nat(r)) for (v, k), r in self.iint.items()], "nat * N * res nat")
        istr = lst(["(%d, %s, %s)" % (v, coq.ctext(k), res_nat(r)) for (v, k), r in self.istr.items()], "nat * text * res nat")
        conv = lst(["(%d%%N, %d, %s)" % (ord(c), v, res_nat(r)) for (c, v), r in self.conv.items()], "cp * nat * res nat")
        fmt = lst(["(%d, %s, %s)" % (v, coq.ctext(sp), res_text(r)) for (v, sp), r in self.fmt.items()], "nat * text * res text")
        return "(mkOtab %s %s %s %s %s %s)" % (kw, attr, iint, istr, conv, fmt)


class DottedFormatter(string.Formatter):
    """The arbiter: Python's own formatting machinery with the documented convention -- a field name containing a '.'
    is one key of the `sqlfluff` mapping of the context."""

    def get_field(self, field_name, args, kwargs):
        if "." in field_name and "[" not in field_name and "]" not in field_name:
            return kwargs["sqlfluff"][field_name], "sqlfluff"
        return super().get_field(field_name, args, kwargs)


def arbiter(s, ctx):
    try:
        return ("ok", DottedFormatter().vformat(s, (), ctx))
    except Exception as e:
        return ("exc", type(e).__name__)


def py_str_format(s, ctx):
    try:
        return ("ok", s.format(**ctx))
    except Exception as e:
        return ("exc", ekind(e))


def has_dotted_field(s):
    try:
        for _lit, name, spec, _conv in _string.formatter_parser(s):
            if name is not None and ("." in name or (spec and has_dotted_field(spec))):
                return True
    except ValueError:
        pass
    return False


def fields_of(s, base=0):
    """[(start offset of '{', field_name, conv, spec)] of the top-level and nested fields, by CPython's own parser."""
    out = []
    pos = 0
    try:
        for lit, name, spec, conv in _string.formatter_parser(s):
            # literal text consumed: find how many source characters it took (escapes are doubled in the source)
            i = pos
            for ch in lit:
                if ch in "{}" and s[i:i + 2] == ch * 2:
                    i += 2
                else:
                    i += 1
            pos = i
            if name is None:
                continue
            start = pos
            # find the end of this field by re-parsing prefixes
            depth = 0
            j = start
            inbr = False
            # skip name (brackets hide everything)
            j += 1
            k = j
            while k < len(s):
                c = s[k]
                if inbr:
                    if c == "]":
                        inbr = False
                elif c == "[":
                    inbr = True
                elif c in "}:!":
                    break
                k += 1
            if s[k] == "!":
                k += 2
            if s[k] == ":":
                spec_start = k + 1
                depth = 1
                k += 1
                while depth:
                    if s[k] == "{":
                        depth += 1
                    elif s[k] == "}":
                        depth -= 1
                    k += 1
                out.append((base + start, name, conv, spec))
                out.extend(fields_of(s[spec_start:k - 1], base + spec_start))
            else:
                k += 1
                out.append((base + start, name, conv, spec))
            pos = k
    except (ValueError, IndexError):
        pass
    return out


def classify(s):
    """Why the dot-notation regex and the format grammar disagree on s (mechanism of a rendering difference)."""
    flds = {f[0]: f for f in fields_of(s)}
    matches = list(re.finditer(DOT_PATTERN, s))
    mech = []
    for m in matches:
        f = flds.get(m.start())
        if f is None:
            mech.append("match-starts-at-escaped-or-literal-brace")
        elif m.group(1) != f[1]:
            mech.append("conversion-captured-in-key" if f[2] is not None else "match-group-is-not-the-field-name")
    for start, name, conv, spec in flds.values():
        if "." in name and "[" not in name and "]" not in name and not any(m.start() == start for m in matches):
            if any(m.start() < start < m.end() for m in matches):
                mech.append("dotted-field-swallowed-by-previous-match")
            elif any(c.isspace() for c in spec):
                mech.append("dotted-field-spec-has-whitespace")
            else:
                mech.append("dotted-field-not-matched")
    order = ["match-starts-at-escaped-or-literal-brace", "conversion-captured-in-key", "dotted-field-spec-has-whitespace",
             "dotted-field-swallowed-by-previous-match", "match-group-is-not-the-field-name", "dotted-field-not-matched"]
    for o in order:
        if o in mech:
            return o
    return "other"


# ---- the fragment of the theorem C09_dot_hack_correct_partial, mirrored (and compared with Coq's safe_list on a sample) ----

def to_toks(s, top=True):
    """format string -> tok tree of Model/PyFormat.v section 5, or None when s is not of that shape"""
    toks, i = [], 0
    while i < len(s):
        c = s[i]
        if c == "{":
            if s[i + 1:i + 2] == "{":
                if not top:
                    return None
                toks.append(("esc", "{"))
                i += 2
                continue
            j = i + 1
            while j < len(s) and s[j] not in "{}:![]":
                j += 1
            if j >= len(s) or s[j] in "{[]":
                return None
            name, conv, spec = s[i + 1:j], None, None
            if s[j] == "!":
                if j + 2 >= len(s) or s[j + 2] not in ":}":
                    return None
                conv = s[j + 1]
                j += 2
            if s[j] == ":":
                depth, k = 0, j + 1
                while k < len(s):
                    if s[k] == "{":
                        depth += 1
                    elif s[k] == "}":
                        if depth == 0:
                            break
                        depth -= 1
                    k += 1
                if k >= len(s):
                    return None
                spec = to_toks(s[j + 1:k], False)
                if spec is None:
                    return None
                j = k
            toks.append(("fld", name, conv, spec))
            i = j + 1
        elif c == "}":
            if s[i + 1:i + 2] == "}" and top:
                toks.append(("esc", "}"))
                i += 2
            else:
                return None
        else:
            toks.append(("chr", c))
            i += 1
    return toks


def unparse_toks(toks):
    out = []
    for t in toks:
        if t[0] == "chr":
            out.append(t[1])
        elif t[0] == "esc":
            out.append(t[1] * 2)
        else:
            _f, name, conv, spec = t
            out.append("{" + name + ("!" + conv if conv is not None else "") + (":" + unparse_toks(spec) if spec is not None else "") + "}")
    return "".join(out)


def _not_int(name):
    acc = 0
    for ch in name:
        if "0" <= ch <= "9":
            d = ord(ch) - 48
            if acc > (9223372036854775807 - d) // 10:
                return False
            acc = acc * 10 + d
        else:
            return True
    return False


def safe_tok(top, t):
    if t[0] == "chr":
        return t[1] not in "{}"
    if t[0] == "esc":
        return top
    _f, name, conv, spec = t
    if any(ch in "{}:![]" for ch in name):
        return False
    if "." in name:
        if not _not_int(name) or conv is not None:
            return False
        if spec is None:
            return True
        return top and all(x[0] == "chr" and x[1] not in "{}" and not re.match(r"\s", x[1]) for x in spec)
    if conv is not None and conv in "{}:.":
        return False
    return spec is None or all(safe_tok(False, x) for x in spec)


def safe_list(toks):
    for i, t in enumerate(toks):
        if not safe_tok(True, t):
            return False
        rest = unparse_toks(toks[i + 1:])
        if t[0] == "esc" and t[1] == "{":
            if "." in re.match(r"[^:}]*", rest).group(0):
                return False
        if t[0] == "fld" and t[3] is not None and "." in t[1]:
            if "}" in re.match(r"\S*", rest).group(0):
                return False
    return True


def ctoks(toks):
    items = []
    for t in toks:
        if t[0] == "chr":
            items.append("(TChr %d%%N)" % ord(t[1]))
        elif t[0] == "esc":
            items.append("(TEsc %d%%N)" % ord(t[1]))
        else:
            _f, name, conv, spec = t
            items.append("(TFld %s %s %s)" % (coq.ctext(name), "None" if conv is None else "(Some %d%%N)" % ord(conv),
                                              "None" if spec is None else "(Some %s)" % ctoks(spec)))
    return coq.clist(items) if items else "(@nil tok)"


class _ReShim:
    """Stands in for the `re` module inside sqlfluff.core.templaters.python: forwards everything, records re.sub calls."""

    def __init__(self):
        self.calls = []

    def sub(self, pattern, repl, s, *a, **k):
        r = re.sub(pattern, repl, s, *a, **k)
        self.calls.append((pattern, repl, s, r))
        return r

    def __getattr__(self, name):
        return getattr(re, name)


class RealPython:
    """Adapter around the real PythonTemplater."""

    def __init__(self):
        import sqlfluff.core.templaters.python as pymod
        from sqlfluff.core import FluffConfig
        self.pymod = pymod
        self.cfg = FluffConfig(overrides={"dialect": "ansi", "templater": "python"})
        self.FluffConfig = FluffConfig
        outer = self

        class Probe(pymod.PythonTemplater):
            def slice_file(self, raw_str, render_func, config=None, append_to_templated=""):
                try:
                    outer.rendered = ("ok", render_func(raw_str))
                except Exception as e:  # recorded; the real call below raises it again
                    outer.rendered = ("exc", ekind(e))
                return super().slice_file(raw_str, render_func, config=config, append_to_templated=append_to_templated)

        self.Probe = Probe

    def run(self, s, ctx, via_config=False):
        """-> dict(process=(ok,text)|(exc,kind,type), rendered=..., hacked=..., live_context=...)"""
        shim = _ReShim()
        saved = self.pymod.re
        self.pymod.re = shim
        self.rendered = None
        try:
            if via_config:
                cfg = self.FluffConfig(overrides={"dialect": "ansi", "templater": "python"},
                                       configs={"templater": {"python": {"context": ctx}}})
                t = self.Probe()
            else:
                cfg = self.cfg
                t = self.Probe(override_context=ctx)
            live = t.get_context("t.sql", cfg)
            try:
                tf, _errs = t.process(in_str=s, fname="t.sql", config=cfg)
                proc = ("ok", tf.templated_str)
            except Exception as e:
                proc = ("exc", ekind(e), type(e).__name__)
        finally:
            self.pymod.re = saved
        return {"process": proc, "rendered": self.rendered, "subs": shim.calls, "live": live}


# ---- contexts --------------------------------------------------------------------------------------------------

SMALL_CTX = {"a": "Aa", "sqlfluff": {"a.a": "Q", "a.": "R", ".a": "S", ".": "T", "a.a.a": "U", "a .a": "V"}}
BIG_CTX = {
    "a": "Aa", "b": "tbl", "w": 6, "p": 2, "n": 42, "f": 3.14159, "al": ">", "d": {"k": "dv", "x.y": "dxy"}, "l": ["l0", "l1"],
    "sqlfluff": {"a.b": "zz", "x.y": 7, "t.col": "c1", "s.w": 8, "f.v": 2.5, "a.b.c": "abc", "n.real": "nr", "al.al": "<"},
}
NO_MAGIC_CTX = {"a": "Aa", "b": "tbl", "w": 6, "n": 42}


# ---- generators ------------------------------------------------------------------------------------------------

def gen_exhaustive(tier):
    """all strings over the alphabet up to the bound (the second alphabet adds the index brackets)"""
    bounds = [("{}a.:! ", 4)] if tier == "quick" else [("{}a.:! ", 5), ("{}a.:![]", 4)]
    for alpha, bound in bounds:
        for n in range(0, bound + 1):
            for tup in itertools.product(alpha, repeat=n):
                yield "".join(tup)


GRID_NAMES = ["a", "a.b", "x.y", "t.col", "mi.ss", "a.b.c", "n.real", "f.v", "s.w", "b", "n", "f", "zz", "d[k]", "l[1]", "d[x.y]", "l[7]", "a.b[0]", "", "0"]
GRID_CONV = ["", "!r", "!s", "!a", "!x"]
GRID_SPEC = ["", ":", ":>6", ":<6", ": >6", ":*^9", ":x y", ":.2f", ":06.2f", ":d", ":>{w}", ":{al}{w}", ":{w}.{p}f", ":{s.w}", ":>{s.w}", ":{a.b}", ":{w:{p}}", ":{{}}"]
GRID_PRE = ["", "x ", "{{", "{{ ", "}}", "{{x}} ", "{{a.b}} ", "{{a}}.", "{n} ", "{a.b}", "{a.b:>6}", "{a.b:>6} ", "{a:>6}", "sel.ect ", "a:b "]
GRID_POST = ["", " y", "}}", "{{", " {{x.y}}", "{x.y}", " {x.y}", "{b}", ".c", " }} {{"]


def gen_grid(tier):
    for name in GRID_NAMES:
        for conv in GRID_CONV:
            for spec in GRID_SPEC:
                yield "{%s%s%s}" % (name, conv, spec)
    # one fixed representative of every mechanism seen so far, so that the reported set does not depend on the seed
    for fixed in ["{f.imag: >6}", "{a.b:>6}{f.imag}", "{a: >6}{{ ", " {sqlfluff}{b!s: >6}\x85", "\t{b:\t>4}{l}", "{a.b:^8}{d!a}:",
                  "{a:}", "select {a:} from t", "{{ {a.b}", "{{a.b}}", "{a.b!r}", "{a.b: >6}", "{a.b:>6}{x.y}", "{a.b:{s.w}}",
                  "{n.real: >6}", "{a.b.c:>6s}{n.real:>{w}}", "{12345678901234567890.5}"]:
        yield fixed
    fields = ["{a.b}", "{a.b:>6}", "{a}", "{x.y!r}", "{n:>{w}}", "{t.col: <8}", "{b:{s.w}}"]
    for pre in GRID_PRE:
        for f in fields:
            for post in GRID_POST:
                yield pre + f + post


LITS = ["select ", " from ", "\n", " where x = ", "a.b", "t.c ", ":", " x: y ", "!", "[0]", "]", " ", ",", "'q'", "1.5", "\t", "é.", "　", "\x85", "-- c."]
# name -> kind of value it denotes under the documented convention in BIG_CTX (s str, i int, f float, o other)
PLAIN_NAMES = {"a": "s", "b": "s", "al": "s", "n": "i", "w": "i", "p": "i", "f": "f", "d": "o", "l": "o", "test_value": "s"}
DOTTED_NAMES = {"a.b": "s", "x.y": "i", "t.col": "s", "s.w": "i", "f.v": "f", "a.b.c": "s", "n.real": "s", "al.al": "s"}
INDEXED_NAMES = {"d[k]": "s", "l[0]": "s", "l[1]": "s", "sqlfluff[a.b]": "s"}
BAD_NAMES = ["zz", "mi.ss", "a.", ".b", "a..b", "l[5]", "d[zz]", "d[x.y]", "a[0]", "n.imag", "d[k].x", "l[0][1]", "a[", "a[0]x", "d[]",
             "a.b[0]", "a[b.c]", "", "0", "1", "00", "a b", " a", "a ", "sqlfluff", "99999999999999999999.5"]
SPECS = {
    "s": ["", ">6", "<7", "^8", " >6", "*<5", "s", ">6s", "\t>4", ".2", "　^5", ">{w}", "{al}{w}", "<{s.w}", "{al.al}9"],
    "i": ["", "d", "x", ">6", "06", ",", " >6", "+", "=+5", "<{w}", "{w}d", "0{s.w}"],
    "f": ["", ".2f", "08.3f", ">8.1f", " >9", "e", "%", ",", "{w}.{p}f", ".{p}f", "{s.w}.1f"],
    "o": ["", "", ""],
}
BAD_SPECS = ["x y", "=+5", "d", ".2f", "{zz}", "{w:{p}}", "{mi.ss}", "{", "}", "{w!x}", "{a.b: >3}"]


def gen_field(rng, depth=0, nested=False):
    r = rng.random()
    if r < 0.45:
        name, kind = rng.choice(list(DOTTED_NAMES.items()))
    elif r < 0.8:
        name, kind = rng.choice(list(PLAIN_NAMES.items()))
    elif r < 0.9:
        name, kind = rng.choice(list(INDEXED_NAMES.items()))
    else:
        name, kind = rng.choice(BAD_NAMES), "s"
    conv = rng.choice(["", "", "", "", "", "!r", "!s", "!a"])
    if rng.random() < 0.04:
        conv = rng.choice(["!x", "!", "!rr"])
    if conv:
        kind = "s"
    if rng.random() < 0.4:
        spec = ""
    elif rng.random() < 0.9:
        spec = ":" + rng.choice(SPECS[kind])
    else:
        spec = ":" + rng.choice(BAD_SPECS)
    return "{" + name + conv + spec + "}"


def gen_tree(rng):
    n = rng.choice([1, 2, 2, 3, 3, 4, 5, 6])
    parts = []
    for _ in range(n):
        r = rng.random()
        if r < 0.35:
            parts.append(rng.choice(LITS))
        elif r < 0.47:
            parts.append(rng.choice(["{{", "}}", "{{", "{{}}", "{{ ", " }}"]))
        else:
            parts.append(gen_field(rng))
    return "".join(parts)


def gen_malformed(rng):
    n = rng.randrange(1, 12)
    return "".join(rng.choice("{{}}}a.b:!: []0 \n\t>x") for _ in range(n))


# ---- running ---------------------------------------------------------------------------------------------------

MODEL_FN = "harness_case"
FRAG_FN = "fun c : list tok * text => (safe_list (fst c), text_eqb (unparse (fst c)) (snd c))"
CONTEXTS = {}


def coq_res(r):
    """parsed `res text` -> ('ok', str) | ('exc', kind)"""
    if r[0] == "Ok":
        return ("ok", "".join(chr(c) for c in r[1]))
    return ("exc", r[1][0] if isinstance(r[1], tuple) else r[1])


def slicer_attrs(s, proc):
    return {"mechanism": "slice_file", "outcome": proc[2] if proc[0] == "exc" else "differs",
            "empty_format_spec": bool(re.search(r":}", s))}


def run_python_part(ctx, coq_ok):
    real = RealPython()
    rng = ctx.rng
    quick = ctx.tier == "quick"
    cases = []  # (source, context name, stream)
    for s in gen_exhaustive(ctx.tier):
        cases.append((s, "small", "exhaustive"))
    for s in gen_grid(ctx.tier):
        cases.append((s, "big", "grid"))
    for _ in range(1600 if quick else 10000):
        cases.append((gen_tree(rng), "big", "random"))
    for _ in range(200 if quick else 1500):
        cases.append((gen_tree(rng), "nomagic", "random-nomagic"))
    for _ in range(500 if quick else 3000):
        cases.append((gen_malformed(rng), "big", "malformed"))
    seen = set()
    uniq = []
    for c in cases:
        if c[:2] not in seen:
            seen.add(c[:2])
            uniq.append(c)
    cases = uniq

    lits, expect, all_idx = [], [], []
    frag_lits, frag_expect = [], []
    pattern_checked = False
    for ci, (s, cname, stream) in enumerate(cases):
        # every 9th grid case takes its context from a FluffConfig section instead of override_context
        r = real.run(s, CONTEXTS[cname], via_config=(stream == "grid" and ci % 9 == 0))
        live = r["live"]
        if live != dict_ctx(cname):
            ctx.broken_obligation("adapter: live context differs from the configured one", {"input": s, "context": cname, "live": repr(live)})
            return lits, expect, frag_lits, frag_expect
        subs = r["subs"]
        # -- the regex under the model is the regex in the source
        if subs and not pattern_checked:
            pattern_checked = True
            if (subs[0][0], subs[0][1]) != (DOT_PATTERN, DOT_REPL):
                ctx.broken_obligation("model out of date: dot-notation regex in python.py changed",
                                      {"source_pattern": subs[0][0], "source_repl": subs[0][1], "modelled": [DOT_PATTERN, DOT_REPL]})
        if not subs or any(c[2] != s or c[3] != subs[0][3] for c in subs):
            ctx.broken_obligation("adapter: render_func did not call re.sub on the raw string", {"input": s, "calls": len(subs)})
            return lits, expect, frag_lits, frag_expect
        hacked = subs[0][3]
        # -- monitor: the arbiter decides
        arb = arbiter(s, live)
        dotted = has_dotted_field(s)
        proc = r["process"]
        rendered = r["rendered"]
        inp = {"source": s, "context": cname}
        nontriv = dotted and stream != "malformed"
        ctx.case((s, cname) if nontriv else None, bucket="py:%s:%s" % (stream, "valid" if arb[0] == "ok" else "invalid"),
                 sample={"source": s, "context": cname, "arbiter": arb, "templater": proc[:2]} if nontriv and arb[0] == "ok" and len(s) > 12 else None)
        unspecified = any(("." in f[1] and ("[" in f[1] or "]" in f[1])) for f in fields_of(s))
        if unspecified:
            ctx.count("py:unspecified-dotted-index")
        elif arb[0] == "ok":
            if proc[:2] != arb:
                if rendered == arb:
                    ctx.violation("python-slicer-changes-rendering",
                                  "python templater: render_func produced the str.format result but PythonTemplater.process %s"
                                  % ("raised %s" % proc[2] if proc[0] == "exc" else "returned a different templated_str"),
                                  {"input": inp, "expected": arb[1], "got": proc}, attrs=slicer_attrs(s, proc))
                else:
                    mech = classify(s)
                    what = ("valid format string fails to render: %s" % proc[2]) if proc[0] != "ok" else "rendered text differs from str.format"
                    ctx.violation("python-dot-hack", "python templater: %s (dot-notation regex vs format grammar: %s)" % (what, mech),
                                  {"input": inp, "expected": arb[1], "got": proc, "rewritten": hacked},
                                  attrs={"mechanism": mech, "outcome": "raises" if proc[0] != "ok" else "differs"})
        elif proc[0] == "ok":
            ctx.violation("python-invalid-renders", "python templater renders a format string that str.format (dotted-name convention) rejects",
                          {"input": inp, "arbiter": arb, "got": proc, "rewritten": hacked}, attrs={"mechanism": classify(s)})
        # -- the theorem's fragment: there the model says render_func == specification, so the real render_func must agree with the arbiter
        toks = to_toks(s)
        if toks is not None and unparse_toks(toks) != s:
            ctx.broken_obligation("harness: tok tree does not unparse to its source", {"input": s})
        in_fragment = toks is not None and safe_list(toks)
        if in_fragment:
            ctx.count("py:in-proved-fragment:%s" % ("valid" if arb[0] == "ok" else "invalid"))
            # (which exception is raised is not compared here: at the nesting limit string.Formatter looks a name up before it
            # notices the depth, str.format does not; the exact error kinds are compared model-vs-code in the correspondence)
            if rendered is None or (rendered[0] == "ok") != (arb[0] == "ok") or (arb[0] == "ok" and rendered[1] != arb[1]):
                ctx.broken_obligation("theorem C09_dot_hack_correct_partial predicts render_func == str.format with the dotted-name convention "
                                      "on this format string, the real render_func disagrees", {"input": inp, "render_func": rendered, "arbiter": arb})
        if toks is not None and len(frag_lits) < (400 if quick else 2000) and (in_fragment or len(frag_lits) % 2):
            frag_lits.append("(%s, %s)" % (ctoks(toks), coq.ctext(s)))
            frag_expect.append((s, in_fragment))
        # -- arbiter self-check: without dotted names it IS str.format
        direct = py_str_format(s, live)
        if not dotted:
            if (direct[0] == "ok") != (arb[0] == "ok") or (direct[0] == "ok" and direct[1] != arb[1]):
                ctx.broken_obligation("arbiter self-check: string.Formatter arbiter vs str.format on a string without dotted names",
                                      {"input": inp, "arbiter": arb, "str.format": direct})
        # -- correspondence data
        orc = Oracle(live)
        orc.record(s, hacked)
        idx = len(all_idx)
        all_idx.append(idx)
        # quick tier: the Coq correspondence runs on the whole exhaustive stream and on every third case of the others
        if not quick or (stream == "exhaustive" and (len(s) <= 3 or idx % 2 == 0)) or (stream != "exhaustive" and idx % 4 == 0):
            want_parse = (not quick) or stream in ("exhaustive", "grid", "malformed")
            lits.append("(%s, %s, %s)" % (coq.ctext(s), orc.coq("kw_" + cname), coq.cbool(want_parse)))
            expect.append((s, cname, rendered, direct, hacked, arb, want_parse))
    ctx.coverage_extra["python_cases"] = len(cases)
    ctx.coverage_extra["python_cases_in_proved_fragment"] = ctx.dist.get("py:in-proved-fragment:valid", 0) + ctx.dist.get("py:in-proved-fragment:invalid", 0)
    return lits, expect, frag_lits, frag_expect


def python_defs():
    return "".join("Definition kw_%s : list (text * nat) := %s.\n" % (cname, Oracle(dict_ctx(cname)).kw_coq()) for cname in CONTEXTS)


def check_python_model(ctx, expect, model):
    for e, m in zip(expect, model):
        s, cname, rendered, direct, hacked, arb, want_parse = e
        m_hack, m_parse, m_r, m_s, m_f = m
        got = s if m_hack is None else "".join(chr(c) for c in m_hack[1])
        if got != hacked:
            ctx.broken_obligation("correspondence Model.PyFormat.dot_hack vs re.sub in render_func", {"input": s, "model": got, "impl": hacked})
            break
        if want_parse:
            a, b = canon_items(m_parse[1]), canon_pyparse(s)
            if a != b:
                ctx.broken_obligation("correspondence Model.PyFormat.parse_fmt vs _string.formatter_parser", {"input": s, "model": a, "impl": b})
                break
        m_render = coq_res(m_r)
        m_spec = m_render if m_s is None else coq_res(m_s[1])
        m_format = m_render if m_f is None else coq_res(m_f[1])
        if "EFuel" in (m_render[1], m_spec[1], m_format[1]):
            ctx.broken_obligation("harness: oracle table incomplete (model asked a question the CPython run did not)", {"input": s, "context": cname})
            break
        if rendered is None or m_render != rendered:
            ctx.broken_obligation("correspondence Model.PyFormat.py_render vs PythonTemplater render_func",
                                  {"input": s, "context": cname, "model": m_render, "impl": rendered})
            break
        if m_format != direct:
            ctx.broken_obligation("correspondence Model.PyFormat.py_format vs str.format",
                                  {"input": s, "context": cname, "model": m_format, "impl": direct})
            break
        if (m_spec[0] == "ok") != (arb[0] == "ok") or (arb[0] == "ok" and m_spec[1] != arb[1]):
            ctx.broken_obligation("correspondence Model.PyFormat.spec_process vs the string.Formatter arbiter",
                                  {"input": s, "context": cname, "model": m_spec, "arbiter": arb})
            break
    ctx.coverage_extra["python_model_vs_impl_cases"] = len(expect)


def dict_ctx(cname):
    d = {"test_value": "__test__"}
    d.update(CONTEXTS[cname])
    return d


CONTEXTS.update({"small": SMALL_CTX, "big": BIG_CTX, "nomagic": NO_MAGIC_CTX})


def canon_items(items):
    """model item list -> [('lit', text) | ('fld', name, conv, spec) | ('bad',)] with adjacent literals merged"""
    out = []
    for it in items:
        if it == ("Bad",) or it == "Bad":
            # CPython raises before yielding the literal text that precedes the malformed construct
            while out and out[-1][0] == "lit":
                out.pop()
            out.append(("bad",))
            break
        if it[0] == "Lit":
            ch = chr(it[1])
            if out and out[-1][0] == "lit":
                out[-1] = ("lit", out[-1][1] + ch)
            else:
                out.append(("lit", ch))
        else:
            _f, name, conv, spec, _ex = it
            conv = None if conv is None else chr(conv[1])
            out.append(("fld", "".join(chr(c) for c in name), conv, "".join(chr(c) for c in spec)))
    return out


def canon_pyparse(s):
    out = []
    try:
        for lit, name, spec, conv in _string.formatter_parser(s):
            if lit:
                if out and out[-1][0] == "lit":
                    out[-1] = ("lit", out[-1][1] + lit)
                else:
                    out.append(("lit", lit))
            if name is not None:
                out.append(("fld", name, conv, spec))
    except ValueError:
        while out and out[-1][0] == "lit":
            out.pop()
        out.append(("bad",))
    return out


# ==============================================================================================================
# Part B — placeholder templater
# ==============================================================================================================

NAMED = {
    "colon": lambda n, q: ":" + n,
    "colon_optional_quotes": lambda n, q: ":" + q + n + q,
    "colon_nospaces": lambda n, q: ":" + n,
    "numeric_colon": lambda n, q: ":" + n,
    "pyformat": lambda n, q: "%(" + n + ")s",
    "dollar": lambda n, q: ("${" + n + "}") if q else ("$" + n),
    "dollar_surround": lambda n, q: "$" + n + "$",
    "flyway_var": lambda n, q: "${" + n + "}",
    "question_mark": lambda n, q: "?",
    "numeric_dollar": lambda n, q: ("${" + n + "}") if q else ("$" + n),
    "percent": lambda n, q: "%s",
    "ampersand": lambda n, q: ("&{" + n + "}") if q else ("&" + n),
}
POSITIONAL = {"question_mark", "percent"}
NUMERIC = {"numeric_colon", "numeric_dollar"}
WORD_NAMES = ["name", "user_id", "x", "Tbl1", "_p", "né", "long_parameter_name_7", "a1"]
STYLE_NAMES = {"dollar_surround": WORD_NAMES + ["my-var", "a-b-c"], "flyway_var": ["flyway:database", "ab", "env:x_y", "defaultSchema"]}
# literal pieces: none contains a placeholder sigil; the middle ones start and end with characters that can neither extend a
# parameter name nor block a look-behind
LIT_FIRST = ["", "SELECT ", "select a, b from t where x = ", "-- c\n", "\n", "  ", "(", "x::int, "]
LIT_MID = [" ", ", ", " AND y = ", ")\n  OR z IN (", " + 1 - ", "\n", " /* é */ ", " = 'lit' AND ", ",\n    ", " ; "]
LIT_LAST = ["", " ", "\n", " FROM tbl", ");", " -- end", " 'q'"]
VALUES = ["'v1'", "42", "tbl", "", "a b", "né é", "NULL", "x.y", "$1", ":name", "%s"]


def gen_placeholder_case(rng, style):
    """-> (source, user context, expected output, number of parameters)"""
    k = rng.choice([0, 1, 1, 2, 2, 3, 4, 6])
    pool = STYLE_NAMES.get(style, WORD_NAMES)
    pieces = [("lit", rng.choice(LIT_FIRST))]
    names = []
    for i in range(k):
        if style in POSITIONAL:
            name = str(i + 1)
        elif style in NUMERIC:
            name = str(rng.choice([1, 2, 3, 10, 25]))
        else:
            name = rng.choice(pool)
        if style == "colon_optional_quotes":
            q = rng.choice(["", "'", '"'])
        elif style in ("dollar", "numeric_dollar", "ampersand"):
            q = rng.choice(["", "{"])
        else:
            q = ""
        names.append(name)
        pieces.append(("param", name, q))
        if i < k - 1:
            if style == "question_mark" and rng.random() < 0.15:
                pieces.append(("lit", ""))
            else:
                pieces.append(("lit", rng.choice(LIT_MID)))
    pieces.append(("lit", rng.choice(LIT_LAST)))
    mode = rng.choice(["full", "partial", "empty"])
    user = {}
    for n in set(names):
        if mode == "full" or (mode == "partial" and rng.random() < 0.5):
            user[n] = rng.choice(VALUES) if rng.random() < 0.85 else rng.choice([7, 2.5, True])
    src, exp = [], []
    for pc in pieces:
        if pc[0] == "lit":
            src.append(pc[1])
            exp.append(pc[1])
        else:
            _p, name, q = pc
            src.append(NAMED[style](name, q))
            body = str(user[name]) if name in user else name
            exp.append((q + body + q) if style == "colon_optional_quotes" else body)
    return "".join(src), user, "".join(exp), k


class FakeMatch:
    def __init__(self, span, groups):
        self._span, self._groups = span, groups

    def span(self):
        return self._span

    def groupdict(self):
        return dict(self._groups)

    def __getitem__(self, k):
        return self._groups[k]


class FakeRegex:
    def __init__(self, matches):
        self.matches = matches

    def finditer(self, s):
        return iter(self.matches)


class RealPlaceholder:
    def __init__(self):
        import sqlfluff.core.templaters.placeholder as phmod
        from sqlfluff.core import FluffConfig
        self.phmod = phmod
        self.FluffConfig = FluffConfig
        self.cfg = FluffConfig(overrides={"dialect": "ansi", "templater": "placeholder"})

    @staticmethod
    def _canon(tf_src, tf_out, sliced, raw):
        return (tf_out,
                [(t.slice_type, t.source_slice.start, t.source_slice.stop, t.templated_slice.start, t.templated_slice.stop) for t in sliced],
                [(r.raw, r.slice_type, r.source_idx) for r in raw])

    def run(self, src, user_ctx, style, via_config=False):
        """the real templater, end to end -> (('ok', (out, tslices, rslices)) | ('exc', type), live context, real matches)"""
        ph = self.phmod
        c = dict(user_ctx)
        c["param_style"] = style
        if via_config:
            cfg = self.FluffConfig(overrides={"dialect": "ansi", "templater": "placeholder"}, configs={"templater": {"placeholder": c}})
            t = ph.PlaceholderTemplater()
        else:
            cfg = self.cfg
            t = ph.PlaceholderTemplater(override_context=c)
        live = t.get_context("t.sql", cfg)
        rx = live["__bind_param_regex"]
        matches = []
        for m in rx.finditer(src):
            gd = m.groupdict()
            matches.append((m.span()[0], m.span()[1], gd.get("param_name") if "param_name" in gd else None, "param_name" in gd,
                            gd.get("quotation") if "quotation" in gd else None, "quotation" in gd))
        try:
            tf, errs = t.process(in_str=src, fname="t.sql", config=cfg)
            res = ("ok", self._canon(src, tf.templated_str, tf.sliced_file, tf.raw_sliced), len(errs))
        except Exception as e:
            res = ("exc", type(e).__name__)
        # process() takes its compiled regex OUT of the context before looking parameters up (repaired defect F26): the lookup table
        # the model gets is the context without that internal entry
        live = {k: v for k, v in live.items() if k != "__bind_param_regex"}
        return res, live, matches

    def run_fake(self, src, ctx_strs, fake_matches):
        """the real process loop driven by a fake regex (arbitrary spans); TemplatedFile replaced by a recorder"""
        ph = self.phmod
        live = dict(ctx_strs)
        live["__bind_param_regex"] = FakeRegex([FakeMatch((a, b), dict(([("param_name", n)] if hn else []) + ([("quotation", q)] if hq else [])))
                                                for (a, b, n, hn, q, hq) in fake_matches])
        t = ph.PlaceholderTemplater()
        t.get_context = lambda fname, config: live
        saved = ph.TemplatedFile
        ph.TemplatedFile = lambda **kw: kw
        try:
            kw, _errs = t.process(in_str=src, fname="t.sql", config=self.cfg)
            return ("ok", self._canon(src, kw["templated_str"], kw["sliced_file"], kw["raw_sliced"]))
        except Exception as e:
            return ("exc", type(e).__name__)
        finally:
            ph.TemplatedFile = saved


def cmatch(m):
    a, b, n, hn, q, hq = m
    return "(mkPm %d %d %s %s)" % (a, b, "(Some %s)" % coq.ctext(n) if hn else "None", "(Some %s)" % coq.ctext(q) if hq else "None")


def cph_case(src, ctx_strs, matches):
    tab = coq.clist(["(%s, %s)" % (coq.ctext(k), coq.ctext(v)) for k, v in ctx_strs.items()]) if ctx_strs else "(@nil (text * text))"
    ms = coq.clist([cmatch(m) for m in matches]) if matches else "(@nil pmatch)"
    return "(%s, %s, %s)" % (coq.ctext(src), tab, ms)


PH_FN = "harness_ph"


def canon_model(m, src):
    out, ts, rs, raw_ok = m
    return ("".join(chr(c) for c in out),
            [("templated" if t[0] else "literal", t[1][0], t[1][1], t[2][0], t[2][1]) for t in ts],
            [(src[r[2]:r[2] + r[0]] if raw_ok else None, "templated" if r[1] else "literal", r[2]) for r in rs])


def tf_ok(src, out, tslices, rslices):
    """independent statement of `slices tile source and output` (shared with C07)"""
    pos_s = pos_t = 0
    for (kind, a, b, c, d) in tslices:
        if a != pos_s or c != pos_t or b < a or d < c:
            return "templated-file slices are not contiguous"
        if kind == "literal" and src[a:b] != out[c:d]:
            return "a literal slice maps to different text"
        pos_s, pos_t = b, d
    if pos_s != len(src) or pos_t != len(out):
        return "slices do not cover source/output"
    if "".join(r[0] for r in rslices) != src:
        return "raw slices do not concatenate to the source"
    pos = 0
    for (raw, _k, idx) in rslices:
        if idx != pos:
            return "raw slice source_idx is not the running offset"
        pos += len(raw)
    return None


def run_placeholder_part(ctx, coq_ok):
    real = RealPlaceholder()
    rng = ctx.rng
    quick = ctx.tier == "quick"
    from sqlfluff.core.templaters.placeholder import KNOWN_STYLES
    styles = list(KNOWN_STYLES)
    if set(styles) != set(NAMED):
        ctx.broken_obligation("model out of date: KNOWN_STYLES changed", {"source": sorted(styles), "harness": sorted(NAMED)})
    lits, expect = [], []

    def record(src, live, matches, res, what):
        # the model asks the context only about parameter names: ship exactly those entries (str() of the live value)
        asked, cnt = [], 1
        for m in matches:
            if m[3]:
                asked.append(m[2])
            else:
                asked.append(str(cnt))
                cnt += 1
        strs = {k: str(live[k]) for k in asked if k is not None and k in live}
        lits.append(cph_case(src, strs, matches))
        expect.append((src, what, matches, res))

    # -- B1. by-construction oracle, every style, with / without values
    per_style = 40 if quick else 300
    for style in styles:
        if style not in NAMED:
            continue
        for i in range(per_style):
            src, user, exp, k = gen_placeholder_case(rng, style)
            via_config = (i % 5 == 4) and all(isinstance(v, str) for v in user.values()) and style != "flyway_var"
            res, live, matches = real.run(src, user, style, via_config=via_config)
            inp = {"source": src, "style": style, "values": user, "via_config": via_config}
            ctx.case((src, style, repr(sorted(user.items()))) if k else None, bucket="ph:%s" % style,
                     sample=dict(inp, rendered=res[1][0] if res[0] == "ok" else res) if k >= 2 and i < 3 else None)
            if any(m[3] and m[2] is None for m in matches):
                ctx.broken_obligation("placeholder model assumption: param_name group did not participate in a match", inp)
            if any(matches[j][1] > matches[j + 1][0] for j in range(len(matches) - 1)) or any(m[0] > m[1] for m in matches):
                ctx.broken_obligation("finditer oracle assumption violated: spans unsorted or overlapping", inp)
            if via_config:
                # values configured in the config file section are strings after config parsing; compare on str()
                pass
            if res[0] != "ok":
                ctx.violation("placeholder-raises", "placeholder templater raised %s on generated SQL" % res[1], {"input": inp},
                              attrs={"style": style, "exception": res[1]})
            else:
                out, ts, rs = res[1]
                if out != exp:
                    ctx.violation("placeholder-render", "placeholder templater output is not the source with each parameter replaced by its "
                                  "configured value (or kept name)", {"input": inp, "expected": exp, "got": out}, attrs={"style": style})
                bad = tf_ok(src, out, ts, rs)
                if bad:
                    ctx.violation("placeholder-slices", "placeholder templater: " + bad, {"input": inp, "slices": ts, "raw": rs}, attrs={"style": style})
                if res[2]:
                    ctx.violation("placeholder-errors", "placeholder templater returned templating errors", {"input": inp}, attrs={"style": style})
            record(src, live, matches, res, {"style": style, "values": user})
    # -- B2. names that collide with keys the templater itself puts in the context
    for style, src, user, exp, mech in [
        ("colon", "SELECT :param_style, :x", {"x": "1"}, "SELECT colon, 1", "configured-section-key"),
        ("colon", "SELECT :__bind_param_regex FROM t", {}, "SELECT __bind_param_regex FROM t", "context-key-added-by-get_context"),
        ("pyformat", "SELECT %(__bind_param_regex)s", {}, "SELECT __bind_param_regex", "context-key-added-by-get_context"),
    ]:
        res, live, matches = real.run(src, user, style)
        ctx.case((src, style), bucket="ph:collision")
        if res[0] != "ok" or res[1][0] != exp:
            ctx.violation("placeholder-internal-key", "placeholder templater replaces a parameter that has no configured value by the str() of an "
                          "internal context entry instead of keeping its name", {"input": {"source": src, "style": style, "values": user},
                                                                               "expected": exp, "got": res[1][0] if res[0] == "ok" else res},
                          attrs={"mechanism": mech})
        record(src, live, matches, res, {"style": style, "values": user})
    # -- B3. correspondence only: random strings full of sigils through the real regexes
    alpha = ":$%?&{}()'\"\\sa1_- \n"
    for _ in range(300 if quick else 4000):
        style = rng.choice(styles)
        src = "".join(rng.choice(alpha) for _ in range(rng.randrange(0, 14)))
        user = {n: rng.choice(VALUES) for n in ["a", "s", "1", "a1", "sa", "11", "2"] if rng.random() < 0.5}
        res, live, matches = real.run(src, user, style)
        ctx.case(None, bucket="ph:random-sigils")
        if res[0] == "ok":
            bad = tf_ok(src, res[1][0], res[1][1], res[1][2])
            if bad:
                ctx.violation("placeholder-slices", "placeholder templater: " + bad, {"input": {"source": src, "style": style, "values": user}},
                              attrs={"style": style})
        else:
            ctx.violation("placeholder-raises", "placeholder templater raised %s" % res[1], {"input": {"source": src, "style": style, "values": user}},
                          attrs={"style": style, "exception": res[1]})
        record(src, live, matches, res, {"style": style, "values": user})
    # -- B4. correspondence only: the loop itself on arbitrary (also unsorted / overlapping) span lists, via a fake regex
    src4 = "abcd"
    spans = [(a, b) for a in range(5) for b in range(a, 5)]
    kinds = [(None, False, None, False), ("k", True, None, False), ("zz", True, None, False), ("k", True, "'", True), (None, False, "\"", True)]
    ctx4 = {"k": "VAL", "1": "ONE", "2": ""}
    fake_cases = [[]]
    for sp in spans:
        for kd in kinds:
            fake_cases.append([sp + kd])
    pairs = list(itertools.product(spans, repeat=2))
    for (s1, s2) in pairs:
        for (k1, k2) in ((kinds[0], kinds[0]), (kinds[1], kinds[0]), (kinds[0], kinds[3]), (kinds[2], kinds[4])):
            if quick and (s1[0] + 2 * s2[1] + len(k1[0] or "")) % 7:
                continue
            fake_cases.append([s1 + k1, s2 + k2])
    for _ in range(60 if quick else 1500):
        n = rng.choice([3, 4, 12])
        fake_cases.append([(lambda a, b: (min(a, b), max(a, b)))(rng.randrange(0, 8), rng.randrange(0, 8)) + rng.choice(kinds) for _ in range(n)])
    for fm in fake_cases:
        res = real.run_fake(src4, ctx4, fm)
        sorted_ok = all(fm[j][1] <= fm[j + 1][0] for j in range(len(fm) - 1)) and all(m[1] <= len(src4) for m in fm)
        ctx.case(None, bucket="ph:fake-spans:%s" % ("sorted" if sorted_ok else "malformed"))
        if sorted_ok and res[0] == "ok":
            bad = tf_ok(src4, res[1][0], res[1][1], res[1][2])
            if bad:
                ctx.violation("placeholder-slices", "placeholder loop on a sorted span list: " + bad, {"input": {"source": src4, "matches": fm}},
                              attrs={"style": "fake"})
        lits.append(cph_case(src4, ctx4, fm))
        expect.append((src4, {"fake": True}, fm, res))
    ctx.coverage_extra["placeholder_cases"] = len(lits)
    return lits, expect


def check_placeholder_model(ctx, expect, model):
    for (src, what, matches, res), m in zip(expect, model):
        mm = canon_model(m, src)
        if res[0] != "ok" or tuple(res[1]) != mm:
            ctx.broken_obligation("correspondence Model.Placeholder.ph_process vs PlaceholderTemplater.process",
                                  {"input": {"source": src, "what": what, "matches": matches}, "model": mm, "impl": res})
            break
    ctx.coverage_extra["placeholder_model_vs_impl_cases"] = len(expect)


def replay(ctx, data):
    """./check C09 --replay file : run the recorded input(s) again on the current tree"""
    rep = data.get("replay", {})
    inputs = [rep.get("input")] + list(rep.get("more_inputs", []))
    still = 0
    for inp in [i for i in inputs if i]:
        if "style" in inp:
            res, _live, _m = RealPlaceholder().run(inp["source"], inp.get("values", {}), inp["style"], via_config=inp.get("via_config", False))
            print("placeholder %r style=%s values=%r -> %r" % (inp["source"], inp["style"], inp.get("values"), res[1][0] if res[0] == "ok" else res))
            if "expected" in rep and inp is rep.get("input") and (res[0] != "ok" or res[1][0] != rep["expected"]):
                still += 1
        else:
            r = RealPython().run(inp["source"], CONTEXTS[inp["context"]])
            arb = arbiter(inp["source"], r["live"])
            print("python %r context=%s: str.format with the dotted-name convention -> %r ; PythonTemplater.process -> %r ; render_func -> %r"
                  % (inp["source"], inp["context"], arb, r["process"], r["rendered"]))
            if (arb[0] == "ok") != (r["process"][0] == "ok") or (arb[0] == "ok" and arb[1] != r["process"][1]):
                still += 1
    print("%d of %d recorded inputs still violate the property" % (still, len([i for i in inputs if i])))
    return 1 if still else 0


def submit_shards(pool, imports, func, lits, nshards, defs=""):
    """evaluate `func c` for every literal with vm_compute, as nshards coqc jobs on the shared pool -> list of futures"""
    if not lits:
        return []
    size = max(1, -(-len(lits) // nshards))
    futs = []
    for sh in coq.chunked(lits, size):
        term = "map (%s) %s" % (func, coq.clist(sh))
        futs.append((len(sh), pool.submit(lambda t=term: coq.eval_terms(imports, [t], defs=defs, timeout=1500)[0])))
    return futs


def gather(futs):
    out = []
    for n, f in futs:
        part = f.result()
        if len(part) != n:
            raise coq.CoqError("shard result length mismatch %d vs %d" % (len(part), n))
        out.extend(part)
    return out


def run(ctx, coq_ok):
    from concurrent.futures import ThreadPoolExecutor
    quick = ctx.tier == "quick"
    with ThreadPoolExecutor(max_workers=4) as pool:   # never more than 4 coqc processes
        ph_lits, ph_expect = run_placeholder_part(ctx, coq_ok)
        ph_futs = submit_shards(pool, ["Model.Placeholder"], PH_FN, ph_lits, 1 if quick else 8) if coq_ok else []
        py_lits, py_expect, frag_lits, frag_expect = run_python_part(ctx, coq_ok)
        frag_futs = submit_shards(pool, ["Model.PyFormat"], FRAG_FN, frag_lits, 1) if coq_ok else []
        py_futs = submit_shards(pool, ["Model.PyFormat"], MODEL_FN, py_lits, 2 if quick else 32, defs=python_defs()) if coq_ok else []
        if coq_ok:
            check_placeholder_model(ctx, ph_expect, gather(ph_futs))
            check_python_model(ctx, py_expect, gather(py_futs))
            for (src, in_frag), m in zip(frag_expect, gather(frag_futs)):
                if m[1] is not True or m[0] != in_frag:
                    ctx.broken_obligation("correspondence Model.PyFormat.safe_list / unparse vs the harness mirror of the theorem's fragment",
                                          {"input": src, "model_safe_list": m[0], "model_unparse_is_source": m[1], "harness_safe": in_frag})
                    break
            ctx.coverage_extra["fragment_membership_cases"] = len(frag_expect)
