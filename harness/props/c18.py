"""C18 — files with template or parse errors are never modified by fix."""
from harness import scenarios

LEVEL = "proof"
COQ_TARGETS = ["theories/Properties/C18.vo"]
PROPERTY_FILES = ["theories/Properties/C18.v"]
RULE = scenarios.__doc__.split("\n")[0] + (" Scenario grid as C22 (33 core + seeded sample / all 864); each through fix by path, format by path, "
        "fix by stdin and api fix(); plus loop-limit runs. non-trivial = scenario with a templating or parsing violation; distinct = distinct scenario")
ASSUMPTIONS = ["violation summaries captured at LintedDir.add are the decision layer's whole input"]
TRUSTED_BASE = ["hand model Model/Gate.v (persist gate of lint_paths/persist_tree, _stdin_fix, simple.fix)"]


def loop_limit(ctx):
    """When the fix loop cannot stabilise within runaway_limit the file is left unchanged and its violations become unfixable."""
    from sqlfluff.core import FluffConfig, Linter
    sqls = ["SELECT a  from b where  c = 1\n", "select\n  a,b  ,c from  t\n", "SELECT a, b FROM t WHERE a = 1 AND  b = 2 ORDER BY a ,b\n"]
    for sql in sqls:
        full = Linter(config=FluffConfig(overrides={"dialect": "ansi"})).lint_string(sql, fix=True)
        for limit in (1, 2):
            lf = Linter(config=FluffConfig(overrides={"dialect": "ansi", "runaway_limit": limit})).lint_string(sql, fix=True)
            out, _ = lf.fix_string()
            fixes_left = [v for v in lf.violations if getattr(v, "fixes", None)]
            ctx.case(("looplimit", sql, limit), bucket="loop-limit")
            stable = out == full.fix_string()[0]
            if out != sql and not stable:
                # a partially fixed file was produced: neither the stable result nor the untouched input
                ctx.violation("loop-limit-partial", "runaway_limit=%d produced a partially fixed file" % limit,
                              {"input": {"sql": sql, "runaway_limit": limit}, "output": out, "stable_output": full.fix_string()[0]})
            if out == sql and full.fix_string()[0] != sql and fixes_left:
                ctx.violation("loop-limit-fixes-kept", "file left unchanged at the loop limit but violations still carry fixes",
                              {"input": {"sql": sql, "runaway_limit": limit}, "fixable": [v.rule_code() for v in fixes_left]})


def run(ctx, coq_ok):
    specs = scenarios.choose_specs(ctx, 45 if ctx.tier == "quick" else None)
    obs = scenarios.run_specs(specs)
    for o in obs:
        nt = any(scenarios.is_tp(v) for fl in o["fix_path"]["files"] for v in fl)
        ctx.case(tuple(o["spec"]) if nt else None, bucket="tmp=%s,prs=%s,sup=%s" % (o["spec"][0], o["spec"][1], o["spec"][3]),
                 sample={"spec": o["spec"], "sql": o["sql"], "changed": {"path": o["fix_path"]["file_after"] != o["sql"],
                                                                         "stdin": o["fix_stdin"]["stdout"] != o["sql"],
                                                                         "api": o["api_fix"]["text"] != o["sql"]}} if nt else None)
        scenarios.eval_c18(ctx, o)
        for entry in ("fix_path", "fix_stdin", "format_path", "api_fix"):
            e = o[entry].get("exception")
            if e:
                ctx.violation("fix-entrypoint-exception", "%s raised %s" % (entry, e.split(":")[0]),
                              {"input": scenarios._inp(o), "entry": entry, "exception": e},
                              attrs=dict(scenarios._attrs(o, entry, o[entry].get("files", [])), exception=e.split(":")[0]))
    loop_limit(ctx)
    if coq_ok:
        ctx.coverage_extra["model_vs_impl_cases"] = scenarios.correspond(ctx, obs)
    ctx.coverage_extra["exhaustive"] = ctx.tier == "thorough"
