"""C12 — fixes are lexically stable: they never merge or split tokens."""
from harness import corpus, fixjobs

LEVEL = "proof"
COQ_TARGETS = ["theories/Properties/C12.vo"]
PROPERTY_FILES = ["theories/Properties/C12.v"]
RULE = ("every fix of the corpus (fixtures of every dialect, token-level mutations, hand-made operator/keyword adjacency cases; rule sets: layout, core, "
        "all, the `format` rule list) is re-lexed with the same configuration and compared with the leaves of the fixed tree the linter produced: "
        "same boundaries (sequence of raws) and, position by position, the re-lexed token has the lexer kind that the leaf's raw gets when lexed "
        "alone (parser-assigned kinds such as keyword/naked_identifier are not lexer kinds, so kinds are compared through the lexer). The comparator "
        "is the one proved exact in Coq (C12_comparator_exact). non-trivial = a fix run that changed the file; distinct by (dialect, sql, rules)")
ASSUMPTIONS = ["PARTIAL: rule bodies, the reflow engine and the dialect regexes are not modelled: validated per run", "untemplated files only (a templated file's fixed tree is not the text of the fixed source)"]
TRUSTED_BASE = ["Model/TokenRel.v comparator", "harness/fixcheck.py"]
FORMAT_RULES = "LT01,LT02,LT03,LT04,LT05,LT06,LT07,LT08,LT09,LT10,LT11,LT12,LT13,LT14,LT15,CP01,CP02,CP03,CP04,CP05"


def run(ctx, coq_ok):
    js = fixjobs.jobs(ctx, ["layout", "core", "all", FORMAT_RULES, "convention", "structure", "CV11,CP01", "ambiguous,aliasing,references"], ("relex",))
    for rs in ("all", "structure", "convention"):
        js += fixjobs.comment_jobs(ctx, rs, ("relex",), ((),), n_quick=16, n_thorough=150)
    nchanged = 0
    for (d, tpl, style, label, src, rules, extra, want), st, res in corpus.pmap("harness.fixcheck", "fix_case", js):
        if st != "ok":
            ctx.broken_obligation("harness worker crashed on %s" % label, res)
            continue
        changed = bool(res.get("changed"))
        nchanged += changed
        ctx.case((d, src, rules) if changed else None, bucket="%s" % ("exc" if res["exc"] else "changed" if changed else "no-tree" if res.get("fixed") is None else "unchanged"),
                 sample={"dialect": d, "rules": rules[:20], "sql": src[:80], "fixed": (res.get("fixed") or "")[:80]} if changed and label.startswith("hostile") and len(ctx.samples) < 4 else None)
        if res["exc"] or res.get("fixed") is None or "relex" not in res:
            continue
        if not res["clean"]:
            ctx.count("skipped:input-has-TMP/PRS/LXR (fix is refused for such files, C18)")
            continue
        inp = {"dialect": d, "label": label, "sql": src, "rules": rules}
        a = [r for r, _t in res["tree_tokens"]]
        b = [r for r, _t in res["relex"]]
        if a != b:
            i = next((k for k in range(min(len(a), len(b))) if a[k] != b[k]), min(len(a), len(b)))
            glued = i < len(b) and b[i].startswith("".join(a[i:i + 2])) and len(a[i:i + 2]) == 2
            ctx.violation("relex-boundaries", "fixed tree has tokens %r but the fixed text lexes to %r [%s, rules %s]" % (a[i:i + 3], b[i:i + 2], d, rules[:12]),
                          {"input": inp, "fixed": res["fixed"]}, attrs={"glued": glued, "pair": "".join(a[i:i + 2])[:2] if glued else None, "changed": changed, "lt01": "LT01" in res["codes0"]})
            continue
        orig_kinds = set(tuple(x) for x in res.get("orig_lex", []))   # context-dependent matchers: the token had this kind before the fix too
        for k, ((raw, _t), alone, (_r2, t2)) in enumerate(zip(res["tree_tokens"], res["alone_types"], res["relex"])):
            if alone != t2 and (raw, t2) not in orig_kinds:
                ctx.violation("relex-kind", "token %r is a %s in the fixed text but a %s on its own [%s]" % (raw[:20], t2, alone, d),
                              {"input": inp, "fixed": res["fixed"]}, attrs={"changed": changed, "kinds": "%s/%s" % (t2, alone)})
                break
    ctx.coverage_extra["files_changed_by_fix"] = nchanged
    ctx.coverage_extra["fix_runs"] = len(js)
