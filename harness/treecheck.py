"""Worker functions (run in a process pool) for the lex/parse monitors of C01, C02, C03 and the run-time MatchResult certificate."""
_CFG = {}


def cfg_for(dialect, **over):
    key = (dialect, tuple(sorted(over.items())))
    if key not in _CFG:
        from sqlfluff.core import FluffConfig
        o = {"dialect": dialect}
        o.update(over)
        _CFG[key] = FluffConfig(overrides=o)
    return _CFG[key]


def lex_and_parse(dialect, sql, capture_root_match=False, parse_statistics=False):
    """Returns dict(tokens, tree, lex_errors, parse_errors, exc, root) using the linter's own static steps."""
    from sqlfluff.core import Linter
    from sqlfluff.core.templaters.base import TemplatedFile
    cfg = cfg_for(dialect)
    tf = TemplatedFile(source_str=sql, fname="t.sql")
    out = {"tokens": None, "tree": None, "lex_errors": [], "parse_errors": [], "exc": None, "root": None}
    cap = {}
    if capture_root_match:
        from sqlfluff.core.parser.match_result import MatchResult
        orig = MatchResult.apply
        depth = [0]

        def wrapped(self, segments, parse_context=None):
            depth[0] += 1
            try:
                res = orig(self, segments, parse_context=parse_context)
            finally:
                depth[0] -= 1
            if depth[0] == 0 and "m" not in cap:
                cap["m"], cap["segments"], cap["res"] = self, segments, res
            return res
        MatchResult.apply = wrapped
    try:
        try:
            tokens, lex_vs = Linter._lex_templated_file(tf, cfg)
            out["tokens"], out["lex_errors"] = tokens, lex_vs
            if tokens is not None:
                tree, parse_vs = Linter._parse_tokens(tokens, cfg, fname="t.sql", parse_statistics=parse_statistics)
                out["tree"], out["parse_errors"] = tree, parse_vs
        except BaseException as e:  # noqa
            import traceback
            out["exc"] = "%s: %s @ %s" % (type(e).__name__, str(e)[:200], traceback.extract_tb(e.__traceback__)[-1][:3])
            out["exc_type"] = type(e).__name__
            out["exc_frame"] = "%s:%s" % (traceback.extract_tb(e.__traceback__)[-1].filename.split("/sqlfluff/")[-1],
                                          traceback.extract_tb(e.__traceback__)[-1].name)
    finally:
        if capture_root_match:
            MatchResult.apply = orig
    out["root"] = cap or None
    return out


def _sl(s):
    return (s.start, s.stop)


def check_c02(r):
    """Leaves of the tree (non-meta) are exactly the lexer's tokens (non-meta): same order, text and both positions."""
    probs = []
    tree, tokens = r["tree"], r["tokens"]
    if tree is None or tokens is None:
        return probs
    leaves = [s for s in tree.raw_segments if not s.is_meta]
    toks = [t for t in tokens if not t.is_meta]
    a = [(s.raw, _sl(s.pos_marker.source_slice), _sl(s.pos_marker.templated_slice)) for s in leaves]
    b = [(s.raw, _sl(s.pos_marker.source_slice), _sl(s.pos_marker.templated_slice)) for s in toks]
    if a != b:
        i = next((k for k in range(min(len(a), len(b))) if a[k] != b[k]), min(len(a), len(b)))
        probs.append(("leaves-differ", "tree leaves != lexer tokens at index %d: tree=%r lexer=%r (len %d vs %d)" % (
            i, a[i:i + 2], b[i:i + 2], len(a), len(b))))
    n_unp = sum(1 for _ in tree.iter_unparsables())
    if n_unp != len(r["parse_errors"]):
        probs.append(("prs-count", "%d unparsable nodes but %d PRS errors" % (n_unp, len(r["parse_errors"]))))
    return probs


def check_c03(r):
    """Spans = hull of children, children in order, no non-code ends (except file/unparsable), indent balance."""
    probs = []
    tree = r["tree"]
    if tree is None:
        return probs
    token_spans = [(r.pos_marker.templated_slice.start, r.pos_marker.templated_slice.stop) for r in tree.raw_segments
                   if not r.is_meta and r.pos_marker is not None and r.pos_marker.templated_slice.stop - r.pos_marker.templated_slice.start > 1]
    stack = [tree]
    while stack:
        node = stack.pop()
        kids = node.segments
        if not kids:
            continue
        pm = node.pos_marker
        ks = [k.pos_marker for k in kids]
        if any(k is None for k in ks) or pm is None:
            probs.append(("no-position", "node %s or a child has no position" % node.get_type()))
            continue
        t0, t1 = min(k.templated_slice.start for k in ks), max(k.templated_slice.stop for k in ks)
        if (pm.templated_slice.start, pm.templated_slice.stop) != (t0, t1):
            probs.append(("span-templated", "node %s templated span %r != children %r" % (node.get_type(), _sl(pm.templated_slice), (t0, t1))))
        s0, s1 = min(k.source_slice.start for k in ks), max(k.source_slice.stop for k in ks)
        if (pm.source_slice.start, pm.source_slice.stop) != (s0, s1):
            probs.append(("span-source", "node %s source span %r != hull of children %r" % (node.get_type(), _sl(pm.source_slice), (s0, s1))))
        for (x, y), (kx, ky) in zip(zip(ks, ks[1:]), zip(kids, kids[1:])):
            if x.templated_slice.stop > y.templated_slice.start:
                # a zero-length source-only placeholder whose rendered position lies strictly inside the following raw token (the token was
                # glued together across a whitespace-consuming tag) cannot be placed anywhere else: classified separately
                def in_token(pm_, seg_):
                    return seg_.is_meta and pm_.templated_slice.start == pm_.templated_slice.stop and any(
                        a < pm_.templated_slice.start < b for a, b in token_spans)
                inside = in_token(x, kx) or in_token(y, ky)
                probs.append(("child-order-placeholder-inside-token" if inside else "child-order",
                              "children of %s out of positional order (%s %r at %r before %s %r at %r)" % (
                                  node.get_type(), kx.get_type(), kx.raw[:10], _sl(x.templated_slice), ky.get_type(), ky.raw[:10], _sl(y.templated_slice))))
                break
        if not node.is_type("file", "unparsable"):
            for end in (kids[0], kids[-1]):
                if not (end.is_code or end.is_meta):
                    probs.append(("non-code-end", "node %s begins/ends with %s %r" % (node.get_type(), end.get_type(), end.raw[:20])))
                    break
        stack.extend(k for k in kids if k.segments)
    bal = 0
    for s in tree.raw_segments:
        if s.is_meta:
            bal += getattr(s, "indent_val", 0)
            if bal < 0:
                probs.append(("indent-negative", "running indent balance goes negative"))
                break
    else:
        if bal != 0:
            probs.append(("indent-nonzero", "final indent balance is %d" % bal))
    return probs


def mr_to_coq(m, cls_ids, meta_ids, budget):
    """Real MatchResult -> Coq `mr` term (classes and metas interned)."""
    budget[0] -= 1
    if budget[0] < 0:
        raise OverflowError
    c = "None" if m.matched_class is None else "(Some %d)" % cls_ids.setdefault(m.matched_class.__name__, len(cls_ids))
    ins = "[" + ";".join("(%d,%d)" % (i, meta_ids.setdefault(k.__name__ + (":%s" % getattr(k, "indent_val", "")), len(meta_ids)))
                         for i, k in m.insert_segments) + "]"
    ch = "[" + ";".join(mr_to_coq(x, cls_ids, meta_ids, budget) for x in m.child_matches) + "]"
    return "(MR %d %d %s %s %s)" % (m.matched_slice.start, m.matched_slice.stop, c, ins, ch)


def parse_case(dialect, label, sql, want_cert, parse_statistics=False):
    """-> dict(label, c02:[...], c03:[...], exc, ntokens, unparsable, cert: None | (coq term, n, real leaf index list))"""
    import logging
    logging.disable(logging.CRITICAL)
    r = lex_and_parse(dialect, sql, capture_root_match=want_cert, parse_statistics=parse_statistics)
    out = {"exc": r["exc"], "exc_type": r.get("exc_type"), "exc_frame": r.get("exc_frame"), "c02": [], "c03": [], "ntokens": len(r["tokens"] or []),
           "unparsable": None, "cert": None, "fatal_prs": False, "lxr": len(r["lex_errors"])}
    if r["exc"]:
        return out
    if r["tree"] is None:
        out["fatal_prs"] = True
        if r["tokens"] is not None and not r["parse_errors"]:
            out["c02"].append(("no-tree-no-error", "parse produced neither a tree nor a PRS error"))
        return out
    out["unparsable"] = sum(1 for _ in r["tree"].iter_unparsables())
    out["c02"] = check_c02(r)
    out["c03"] = check_c03(r)
    cap = r["root"]
    if want_cert and cap and cap.get("m") is not None and len(cap["segments"]) <= 400:
        try:
            term = mr_to_coq(cap["m"], {}, {}, [1500])
        except OverflowError:
            term = None
        if term is not None:
            segs = cap["segments"]
            pos = {id(x): i for i, x in enumerate(segs)}
            keymap = {}
            for i, x in enumerate(segs):
                if not x.is_meta:
                    keymap.setdefault((x.pos_marker.templated_slice.start, x.pos_marker.templated_slice.stop, x.raw), []).append(i)
            leaves = []
            for top in cap["res"]:
                for x in top.raw_segments:
                    if id(x) in pos:
                        leaves.append(pos[id(x)])
                    elif not x.is_meta:
                        cand = keymap.get((x.pos_marker.templated_slice.start, x.pos_marker.templated_slice.stop, x.raw), [])
                        leaves.append(cand[0] if len(cand) == 1 else -1)
            ms = cap["m"].matched_slice
            first_code = next((i for i, x in enumerate(segs) if x.is_code), None)
            truthy = (ms.stop > ms.start) or bool(cap["m"].insert_segments)
            start_ok = (not truthy) or first_code is None or ms.start == first_code
            out["cert"] = (term, len(segs), leaves == list(range(ms.start, ms.stop)), ms.start, ms.stop, start_ok)
    return out


def tparse_case(templater, style, label, source):
    """Parse a TEMPLATED source through the linter (render, lex, parse) and run the C03 tree checks on the tree of the first variant."""
    import logging
    logging.disable(logging.CRITICAL)
    from harness import fixcheck
    out = {"exc": None, "c03": [], "ntokens": 0, "unparsable": None, "templated": False, "tmp": 0}
    try:
        lnt = fixcheck.linter("ansi", templater, style, None)
        parsed = lnt.parse_string(source, fname="t.sql")
        out["tmp"] = sum(1 for v in parsed.violations if v.rule_code() == "TMP")
        tree = parsed.tree
        if tree is None:
            return out
        out["ntokens"] = len(tree.raw_segments)
        out["unparsable"] = sum(1 for _ in tree.iter_unparsables())
        tf = parsed.root_variant().templated_file
        out["templated"] = len(tf.sliced_file) > 1
        out["loops"] = len(set(s.source_slice.start for s in tf.sliced_file)) < len(tf.sliced_file)
        out["c03"] = check_c03({"tree": tree})
    except BaseException as e:  # noqa
        import traceback
        out["exc"] = "%s: %s @ %s" % (type(e).__name__, str(e)[:200], traceback.extract_tb(e.__traceback__)[-1][:3])
    return out
