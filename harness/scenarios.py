"""Scenario grid shared by C18 / C19 / C22 / C34: files realising combinations of templating errors, parse errors, fixable and
unfixable lint violations, each suppressed by nothing / noqa / `ignore=` / `warnings=`, run through CLI paths, CLI stdin and the
Python API, with the violation summaries seen by LintedDir.add captured for the Coq decision model."""
import itertools
import os
import shutil
import tempfile
from concurrent.futures import ProcessPoolExecutor

TMP = ["none", "fatal", "nonfatal"]
PRS = ["none", "fatal", "nonfatal"]
LINT = ["none", "fixable", "unfixable", "both"]
SUP_TP = ["none", "noqa", "ignore", "warnings"]
SUP_LINT = ["none", "noqa", "warnings"]
FEU = [False, True]

CORE = [
    # (tmp, prs, lint, sup_tp, sup_lint, feu)  -- deterministic scenarios that always run
    ("none", "none", "none", "none", "none", False),
    ("none", "none", "fixable", "none", "none", False),
    ("none", "none", "unfixable", "none", "none", False),
    ("none", "none", "both", "none", "none", False),
    ("none", "none", "fixable", "none", "noqa", False),
    ("none", "none", "fixable", "none", "warnings", False),
    ("none", "none", "unfixable", "none", "warnings", False),
    ("none", "none", "unfixable", "none", "noqa", False),
    ("none", "nonfatal", "fixable", "none", "none", False),
    ("none", "nonfatal", "fixable", "noqa", "none", False),
    ("none", "nonfatal", "fixable", "ignore", "none", False),
    ("none", "nonfatal", "fixable", "warnings", "none", False),
    ("none", "nonfatal", "fixable", "noqa", "warnings", False),
    ("none", "nonfatal", "fixable", "none", "none", True),
    ("none", "nonfatal", "fixable", "noqa", "none", True),
    ("none", "nonfatal", "both", "noqa", "none", False),
    ("none", "fatal", "fixable", "none", "none", False),
    ("none", "fatal", "fixable", "noqa", "none", False),
    ("none", "fatal", "fixable", "ignore", "none", False),
    ("none", "fatal", "fixable", "noqa", "none", True),
    ("nonfatal", "none", "fixable", "none", "none", False),
    ("nonfatal", "none", "fixable", "noqa", "none", False),
    ("nonfatal", "none", "fixable", "ignore", "none", False),
    ("nonfatal", "none", "fixable", "warnings", "none", False),
    ("nonfatal", "none", "fixable", "none", "none", True),
    ("nonfatal", "none", "fixable", "noqa", "warnings", False),
    ("fatal", "none", "fixable", "none", "none", False),
    ("fatal", "none", "fixable", "noqa", "none", False),
    ("fatal", "none", "fixable", "ignore", "none", False),
    ("fatal", "none", "fixable", "ignore", "none", True),
    ("nonfatal", "nonfatal", "both", "noqa", "noqa", False),
    ("none", "nonfatal", "none", "noqa", "none", False),
    ("none", "nonfatal", "unfixable", "ignore", "none", False),
]


def all_specs():
    return list(itertools.product(TMP, PRS, LINT, SUP_TP, SUP_LINT, FEU))


def build(spec):
    """Returns (sql text, .sqlfluff text)."""
    tmp, prs, lint, sup_tp, sup_lint, feu = spec
    lines = []
    nq_tp = sup_tp == "noqa"
    nq_l = sup_lint == "noqa"
    lines.append("SELECT a FROM b;")
    if lint in ("fixable", "both"):
        lines.append("SELECT a  from b;" + (" -- noqa: LT01,CP01" if nq_l else ""))
    if lint in ("unfixable", "both"):
        lines.append("SELECT DISTINCT a FROM b GROUP BY a;" + (" -- noqa: AM01" if nq_l else ""))
    if tmp == "nonfatal":
        lines.append("SELECT {{ undefined_thing }}a FROM b;" + (" -- noqa: TMP" if nq_tp else ""))
    if prs == "nonfatal":
        lines.append("SELECT a FROM b WHERE;" + (" -- noqa: PRS" if nq_tp else ""))
    if prs == "fatal":
        lines.append("SELECT (a FROM b;" + (" -- noqa: PRS" if nq_tp else ""))
    if tmp == "fatal":
        lines.append("{% if x %}" + (" -- noqa: TMP" if nq_tp else ""))
        lines.append("SELECT 1;")
        # a fatal templating error is reported at line 1 position 0: the noqa must sit on line 1 to apply
        if nq_tp:
            lines[0] = lines[0] + " -- noqa: TMP"
    sql = "\n".join(lines) + "\n"
    cfg = ["[sqlfluff]", "dialect = ansi", "templater = jinja", "rules = LT01,CP01,AM01"]
    if sup_tp == "ignore":
        cfg.append("ignore = templating,parsing")
    w = []
    if sup_tp == "warnings":
        w += ["TMP", "PRS"]
    if sup_lint == "warnings":
        w += ["LT01", "CP01", "AM01"]
    if w:
        cfg.append("warnings = " + ",".join(w))
    if feu:
        cfg.append("fix_even_unparsable = True")
    return sql, "\n".join(cfg) + "\n"


CAPTURE = []


def _install_capture():
    from sqlfluff.core.errors import SQLLexError, SQLLintError, SQLParseError, SQLTemplaterError
    from sqlfluff.core.linter.linted_dir import LintedDir
    if getattr(LintedDir.add, "_verif", False):
        return
    orig = LintedDir.add

    def add(self, file):
        rows = []
        for v in file.violations:
            if isinstance(v, SQLTemplaterError):
                k = "KTmp"
            elif isinstance(v, SQLParseError):
                k = "KPrs"
            elif isinstance(v, SQLLexError):
                k = "KLxr"
            elif isinstance(v, SQLLintError):
                k = "KLint"
            else:
                k = "KOther"
            masked = False
            if file.ignore_mask is not None:
                masked = not file.ignore_mask.ignore_masked_violations([v])
            rows.append((k, bool(getattr(v, "fixes", None)), bool(v.ignore or masked), bool(v.warning),
                         v.rule_code(), v.line_no, v.line_pos))
        CAPTURE.append(rows)
        return orig(self, file)

    add._verif = True
    LintedDir.add = add


def _invoke(cmd, args, input=None):
    from click.testing import CliRunner
    CAPTURE.clear()
    try:
        runner = CliRunner(mix_stderr=False)
    except TypeError:
        runner = CliRunner()
    res = runner.invoke(cmd, args, input=input)
    exc = None
    if res.exception is not None and not isinstance(res.exception, SystemExit):
        exc = "%s: %s" % (type(res.exception).__name__, res.exception)
    try:
        out = res.stdout
    except Exception:
        out = res.output
    return {"exit": res.exit_code, "stdout": out, "exception": exc, "files": [list(map(list, f)) for f in CAPTURE]}


def run_one(spec):
    """Run one scenario through every entry point. Returns a JSON-able observation dict."""
    import sqlfluff
    from sqlfluff.cli import commands
    _install_capture()
    sql, cfg = build(spec)
    base = os.environ.get("TMPDIR") or "/var/tmp"
    d = tempfile.mkdtemp(prefix="verif-scn-", dir=base)
    cwd = os.getcwd()
    obs = {"spec": list(spec), "sql": sql, "config": cfg}
    try:
        os.chdir(d)
        with open(".sqlfluff", "w") as f:
            f.write(cfg)
        path = "t.sql"

        def reset():
            with open(path, "w", newline="") as f:
                f.write(sql)

        reset()
        obs["lint_path"] = _invoke(commands.lint, [path, "--format", "json"])
        obs["lint_stdin"] = _invoke(commands.lint, ["-", "--stdin-filename", path, "--format", "json"], input=sql)
        obs["lint_nofail"] = _invoke(commands.lint, [path, "--nofail"])
        reset()
        r = _invoke(commands.fix, [path])
        r["file_after"] = open(path, newline="").read()
        obs["fix_path"] = r
        reset()
        obs["fix_stdin"] = _invoke(commands.fix, ["-", "--stdin-filename", path], input=sql)
        reset()
        r = _invoke(commands.cli_format, [path])
        r["file_after"] = open(path, newline="").read()
        obs["format_path"] = r
        reset()
        CAPTURE.clear()
        try:
            out = sqlfluff.fix(sql, config_path=os.path.join(d, ".sqlfluff"))
            obs["api_fix"] = {"text": out, "exception": None, "files": [list(map(list, f)) for f in CAPTURE]}
        except BaseException as e:  # noqa
            obs["api_fix"] = {"text": None, "exception": "%s: %s" % (type(e).__name__, e), "files": [list(map(list, f)) for f in CAPTURE]}
        CAPTURE.clear()
        try:
            out = sqlfluff.lint(sql, config_path=os.path.join(d, ".sqlfluff"))
            obs["api_lint"] = {"violations": [[v["code"], v["start_line_no"], v["start_line_pos"]] for v in out], "exception": None}
        except BaseException as e:  # noqa
            obs["api_lint"] = {"violations": None, "exception": "%s: %s" % (type(e).__name__, e)}
    finally:
        os.chdir(cwd)
        shutil.rmtree(d, ignore_errors=True)
    return obs


def choose_specs(ctx, n_random):
    specs = list(CORE)
    allsp = all_specs()
    if n_random is None:
        return allsp
    seen = set(specs)
    pool = [s for s in allsp if s not in seen]
    ctx.rng.shuffle(pool)
    return specs + pool[:n_random]


def run_specs(specs, jobs=14):
    import multiprocessing
    mp = multiprocessing.get_context("fork")
    with ProcessPoolExecutor(max_workers=jobs, mp_context=mp) as ex:
        return list(ex.map(run_one, specs, chunksize=2))


# ---------------- decision helpers (Python transcription of the property's words; the Coq model is evaluated separately)
def visible(v):
    return (not v[2]) and (not v[3])


def spec_lint_fail(files):
    return any(visible(v) for f in files for v in f)


def is_tp(v):
    return v[0] in ("KTmp", "KPrs")


def spec_fix_fail(files, feu):
    for f in files:
        discarded = (not feu) and any(is_tp(v) for v in f)
        for v in f:
            if v[0] == "KLint" and visible(v) and ((not v[1]) or discarded):
                return True
        if (not feu) and any(is_tp(v) and visible(v) for v in f):
            return True
    return False


def coq_file(f):
    from harness import coq
    if not f:
        return "(@nil vsum)"
    return coq.clist(["(mkVS %s %s %s %s)" % (v[0], coq.cbool(v[1]), coq.cbool(v[2]), coq.cbool(v[3])) for v in f])


MODEL_FN = ("fun c : list (list vsum) * bool => let '(fs, feu) := c in let f := hd [] fs in "
            "(lint_exit fs false 0 false, paths_fix_exit fs feu 0 false, stdin_fix f feu, api_should_fix f feu, paths_written f feu true)")


def model_eval(cases):
    """cases: list of (files, feu). Returns list of (lint_exit, paths_exit, (stdin_exit, use_fixed), api_should_fix, paths_written)."""
    from harness import coq
    lits = ["(%s, %s)" % (coq.clist([coq_file(f) for f in fs]) if fs else "(@nil (list vsum))", coq.cbool(feu)) for fs, feu in cases]
    res = coq.eval_sharded(["Model.Gate"], MODEL_FN, lits, shard=400)
    out = []
    for r in res:
        le, pe, st, api, pw = r
        out.append((le, pe, (st[0], st[1]), api, pw))
    return out


# ---------------- per-property evaluation of observations
def _inp(o):
    return {"sql": o["sql"], "config": o["config"], "spec(tmp,prs,lint,sup_tp,sup_lint,feu)": o["spec"]}


def _attrs(o, entry, files):
    f = [v for fl in files for v in fl]
    return {
        "entry": entry,
        "feu": bool(o["spec"][5]),
        "suppressed_tmp_prs": any(is_tp(v) and not visible(v) for v in f),
        "visible_tmp": any(v[0] == "KTmp" and visible(v) for v in f),
        "fixable_warning": any(v[0] == "KLint" and v[1] and v[3] and not v[2] for v in f),
        "fatal_no_tree": o["spec"][0] == "fatal" or o["spec"][1] == "fatal",
    }


def note_exceptions(ctx, o, key="entrypoint-exception"):
    for entry in ("lint_path", "lint_stdin", "lint_nofail", "fix_path", "fix_stdin", "format_path", "api_fix", "api_lint"):
        e = o[entry].get("exception")
        if e:
            ctx.violation(key, "%s raised %s" % (entry, e.split(":")[0]),
                          {"input": _inp(o), "entry": entry, "exception": e},
                          attrs=dict(_attrs(o, entry, o[entry].get("files", [])), exception=e.split(":")[0]))


def eval_c22(ctx, o):
    feu = bool(o["spec"][5])
    for entry in ("lint_path", "lint_stdin"):
        r = o[entry]
        want = 1 if spec_lint_fail(r["files"]) else 0
        if r["exception"] is None and r["exit"] != want:
            ctx.violation("lint-exit", "lint exit code %d but %s unsuppressed non-warning violation exists" % (r["exit"], "an" if want else "no"),
                          {"input": _inp(o), "entry": entry, "exit": r["exit"], "violations": r["files"]}, attrs=_attrs(o, entry, r["files"]))
    r = o["lint_nofail"]
    if r["exception"] is None and r["exit"] != 0:
        ctx.violation("lint-nofail-exit", "--nofail exited %d" % r["exit"], {"input": _inp(o)}, attrs=_attrs(o, "lint_nofail", r["files"]))
    for entry, eff_feu in (("fix_path", feu), ("fix_stdin", feu), ("format_path", False)):
        r = o[entry]
        if r["exception"] is not None:
            continue
        want = 1 if spec_fix_fail(r["files"], eff_feu) else 0
        if r["exit"] != want:
            ctx.violation("fix-exit", "%s exit code %d, expected %d from the remaining unsuppressed violations" % (entry, r["exit"], want),
                          {"input": _inp(o), "entry": entry, "exit": r["exit"], "expected": want, "violations": r["files"]},
                          attrs=dict(_attrs(o, entry, r["files"]), exit=r["exit"], expected=want))
        # warnings never fail
        if r["exit"] != 0 and all((v[2] or v[3]) for fl in r["files"] for v in fl):
            ctx.violation("warning-fails", "%s exits %d although every violation is suppressed or a warning" % (entry, r["exit"]),
                          {"input": _inp(o), "entry": entry, "violations": r["files"]}, attrs=_attrs(o, entry, r["files"]))


def eval_c18(ctx, o):
    feu = bool(o["spec"][5])
    for entry, eff_feu, out in (("fix_path", feu, o["fix_path"].get("file_after")), ("format_path", False, o["format_path"].get("file_after")),
                                ("fix_stdin", feu, o["fix_stdin"].get("stdout")), ("api_fix", feu, o["api_fix"].get("text"))):
        r = o[entry]
        if r.get("exception"):
            continue
        has_tp = any(is_tp(v) for fl in r["files"] for v in fl)
        if has_tp and not eff_feu and out != o["sql"]:
            ctx.violation("modified-despite-tmp-prs", "%s changed the text of a file that has a templating/parsing error" % entry,
                          {"input": _inp(o), "entry": entry, "output": out, "violations": r["files"]}, attrs=_attrs(o, entry, r["files"]))


def _norm_viol(files):
    return sorted((v[4], v[5], v[6]) for fl in files for v in fl if not v[2])


def eval_c19(ctx, o):
    a, b = o["lint_path"], o["lint_stdin"]
    if not a["exception"] and not b["exception"]:
        if _norm_viol(a["files"]) != _norm_viol(b["files"]):
            ctx.violation("violations-differ", "lint by path and by stdin report different violations",
                          {"input": _inp(o), "path": _norm_viol(a["files"]), "stdin": _norm_viol(b["files"])}, attrs=_attrs(o, "lint", a["files"]))
        if a["exit"] != b["exit"]:
            ctx.violation("lint-exit-differs", "lint exit differs between path (%d) and stdin (%d)" % (a["exit"], b["exit"]),
                          {"input": _inp(o)}, attrs=_attrs(o, "lint", a["files"]))
        api = o["api_lint"]
        if not api["exception"]:
            av = sorted(tuple(x) for x in api["violations"])
            if av != _norm_viol(a["files"]):
                ctx.violation("violations-differ-api", "lint by path and through the API report different violations",
                              {"input": _inp(o), "path": _norm_viol(a["files"]), "api": av}, attrs=_attrs(o, "lint_api", a["files"]))
    p, s, api = o["fix_path"], o["fix_stdin"], o["api_fix"]
    if not p["exception"] and not s["exception"]:
        if p["exit"] != s["exit"]:
            ctx.violation("fix-exit-differs", "fix exit differs between path (%d) and stdin (%d)" % (p["exit"], s["exit"]),
                          {"input": _inp(o), "violations": p["files"]}, attrs=dict(_attrs(o, "fix", p["files"]), path_exit=p["exit"], stdin_exit=s["exit"]))
        if p["file_after"] != s["stdout"]:
            ctx.violation("fixed-text-differs", "fixed text differs between path and stdin",
                          {"input": _inp(o), "path": p["file_after"], "stdin": s["stdout"], "violations": p["files"]}, attrs=_attrs(o, "fix", p["files"]))
    if not p["exception"] and not api["exception"]:
        if p["file_after"] != api["text"]:
            ctx.violation("fixed-text-differs-api", "fixed text differs between path and the API",
                          {"input": _inp(o), "path": p["file_after"], "api": api["text"], "violations": p["files"]}, attrs=_attrs(o, "fix_api", p["files"]))


def correspond(ctx, observations):
    """Coq decision model vs the exits / write decisions actually observed."""
    cases = []
    idx = []
    for i, o in enumerate(observations):
        for entry in ("lint_path", "fix_path", "fix_stdin", "api_fix"):
            r = o[entry]
            if r.get("exception") or not r["files"]:
                continue
            cases.append((r["files"], bool(o["spec"][5])))
            idx.append((i, entry))
    res = model_eval(cases)
    for (i, entry), (files, feu), m in zip(idx, cases, res):
        o = observations[i]
        le, pe, (se, use_fixed), api_ok, pw = m
        r = o[entry]
        bad = None
        if entry == "lint_path" and r["exit"] != le:
            bad = ("lint_exit", le, r["exit"])
        if entry == "fix_path":
            if r["exit"] != pe:
                bad = ("paths_fix_exit", pe, r["exit"])
            elif (r["file_after"] != o["sql"]) and not pw:
                bad = ("paths_written", pw, True)
        if entry == "fix_stdin":
            if r["exit"] != se:
                bad = ("stdin_fix exit", se, r["exit"])
            elif (r["stdout"] != o["sql"]) and not use_fixed:
                bad = ("stdin_fix use_fixed", use_fixed, True)
        if entry == "api_fix" and (r["text"] != o["sql"]) and not api_ok:
            bad = ("api_should_fix", api_ok, True)
        if bad:
            ctx.broken_obligation("correspondence Model.Gate.%s vs implementation" % bad[0],
                                  {"input": _inp(o), "entry": entry, "violations(kind,fixable,ign,warn,..)": files, "model": bad[1], "impl": bad[2]})
            return len(cases)
    return len(cases)
