"""Worker functions for C04 (never crash), C05 (no rule fails internally)."""
import traceback

_LINTERS = {}


def linter_for(dialect, rules=None, templater="raw", **over):
    key = (dialect, rules, templater, tuple(sorted(over.items())))
    if key not in _LINTERS:
        import logging
        logging.disable(logging.CRITICAL)
        from sqlfluff.core import FluffConfig, Linter
        o = {"dialect": dialect, "templater": templater}
        if rules:
            o["rules"] = rules
        o.update(over)
        configs = {"core": {}}
        if templater == "placeholder":
            configs["templater"] = {"placeholder": {"param_style": "colon"}}
        if templater == "python":
            configs["templater"] = {"python": {"context": {"a": "x", "b": "y"}}}
        if templater == "jinja":
            configs["templater"] = {"jinja": {"context": {"a": "col_a", "x": True}}}
        _LINTERS[key] = Linter(config=FluffConfig(configs=configs, overrides=o))
    return _LINTERS[key]


def _exc_info(e):
    tb = traceback.extract_tb(e.__traceback__)
    fr = [f for f in tb if "/sqlfluff/" in f.filename]
    last = fr[-1] if fr else tb[-1]
    return {"exc_type": type(e).__name__, "msg": str(e)[:300].split("\n")[0],
            "frame": "%s:%s" % (last.filename.split("/sqlfluff/")[-1], last.name),
            "trace": "".join(traceback.format_exception(type(e), e, e.__traceback__))[-1500:]}


def crash_case(dialect, label, sql, mode, rules, templater, extra):
    """Run one entry point; return dict(ok, exc?, codes, unexpected: [...])."""
    out = {"ok": True, "exc": None, "codes": [], "unexpected": []}
    extra = dict(extra or ())
    try:
        if mode in ("parse", "lint", "fix"):
            lnt = linter_for(dialect, rules, templater, **extra)
            if mode == "parse":
                p = lnt.parse_string(sql, fname="t.sql")
                vs = list(p.violations)
            else:
                lf = lnt.lint_string(sql, fname="t.sql", fix=(mode == "fix"))
                vs = lf.get_violations(filter_ignore=False, filter_warning=False)
                if mode == "fix" and lf.tree is not None and lf.templated_file is not None:
                    lf.fix_string()  # (asserts by contract when there is no tree / templated file: the CLI and API guard that)
        elif mode.startswith("api"):
            import sqlfluff
            from sqlfluff.api.simple import APIParsingError
            kw = {"dialect": dialect}
            if rules:
                kw["rules"] = rules.split(",")
            vs = []
            try:
                if mode == "api_lint":
                    sqlfluff.lint(sql, **kw)
                elif mode == "api_fix":
                    sqlfluff.fix(sql, **kw)
                else:
                    sqlfluff.parse(sql, dialect=dialect)
            except APIParsingError:
                pass  # documented: parse() raises it when the SQL has parse errors
        else:
            raise ValueError(mode)
        for v in vs:
            code = v.rule_code()
            out["codes"].append(code)
            d = v.desc()
            if d.startswith("Unexpected exception"):
                out["unexpected"].append((code, d.split(";")[0][:200]))
    except BaseException as e:  # noqa
        out["ok"] = False
        out["exc"] = _exc_info(e)
    return out
