"""Per-property registration data; tools/mkmanifest.py turns this into MANIFEST.json."""
import json

ALL = ["C%02d" % i for i in range(1, 35)]

# id -> dict(category, text, note, technique, design_ref)
CHECKS = {
    "C31": dict(
        category="proof",
        text=("Coq theorems C31_line_pos_spec / C31_line_pos_in_file / C31_infer_next_spec prove, for every text and every offset in it, "
              "that the model of get_line_pos_of_char_pos returns (1 + #newlines before, 1-based column) and that infer_next_position "
              "agrees with recomputation; the hand model is tied to the code by exhaustive correspondence (all strings over {a,LF,CR} up to "
              "length 6/8 x all offsets, source and rendered side) plus random Unicode and real lexed tokens."),
        note=("Trusted: Coq kernel/vm_compute, the hand transcription Model/LineCol.v (checked by correspondence, exhaustive in small scope), "
              "bisect_left modelled as count of smaller elements, harness printer/parser. No axioms (Print Assumptions: closed)."),
        technique="Coq proof over hand model + exhaustive small-scope model/implementation correspondence",
        design_ref="§35",
    ),
}

CHECKS["C30"] = dict(
    category="proof",
    text=("Coq theorems C30_merge_pairwise_ok / C30_noconflict_meaning / C30_apply_exact prove for every finite set of patch buffers and every "
          "source that the merged patches are sorted, pairwise non-conflicting inputs and that the fixed source equals the source with an ascending "
          "chain of disjoint applied patches substituted for exactly their own ranges (others dropped entirely). Model tied by correspondence: "
          "exhaustive <=2 patches over all ranges of a 4-char source x 3 texts x 1-2 buffers, random 3-4 patch sets with source-only slices, "
          "malformed stream; plus an independent splice oracle run on the implementation's own output."),
    note=("Trusted: Coq kernel/vm_compute, hand transcription Model/Patch.v (checked by correspondence), stable-sort model of sorted(). "
          "Source-only-slice interaction is in the model and under correspondence; the theorem is stated for no source-only slices (C10 covers them). No axioms."),
    technique="Coq proof over hand model + exhaustive small-scope correspondence + oracle on implementation output",
    design_ref="§34",
)
CHECKS["C33"] = dict(
    category="proof",
    text=("Coq theorem C33_reported_once_in_order proves for every violation list that deduplicate_in_source_space's model returns a list with "
          "pairwise distinct source signatures, sorted by (line, column), containing only inputs and losing no signature; "
          "C33_signature_ignores_templated_pos shows loop passes collapse. Tied by correspondence on seeded random violation lists built from the "
          "real error classes, and monitored end to end on Jinja templates with loops and unreached branches."),
    note=("Trusted: Coq kernel, hand model Model/Dedup.v (description/fix raws abstracted to an interned id), stability of sorted(). No axioms."),
    technique="Coq proof over hand model + randomized correspondence + end-to-end monitor",
    design_ref="§37",
)

CHECKS["C20"] = dict(
    category="proof",
    text=("Coq theorem C20_mask_spec proves for every directive list and violation list (all interleavings, any number of directives) that the "
          "model of IgnoreMask.ignore_masked_violations keeps exactly the violations that no plain directive on their line names (or names no "
          "rule) and whose most recent covering range directive at or before their line is not a disable; C20_falsy_covers_refuted keeps the "
          "repaired defect (empty rule tuple covering everything) as a regression witness. Tied by exhaustive small-scope correspondence with "
          "the real IgnoreMask (45 directive forms x 9 violations, <=2 directives x <=1 violations, <=1 x 2, random 2-4 x 2-3) including the "
          "`used` flags; an independent oracle in the property's words runs on the implementation's output; comment parsing and end-to-end "
          "files (incl. parse failures, disable_noqa, disable_noqa_except) are checked against by-construction expectations."),
    note=("Trusted: Coq kernel, hand model Model/NoQa.v (mask + used bookkeeping), stability of sorted(). _parse_noqa / fnmatch expansion is "
          "not modelled in Coq (oracle-checked only); `used` for enable directives is compared model-vs-code but not specified. No axioms."),
    technique="Coq proof over hand model + exhaustive small-scope correspondence + property oracle on implementation output",
    design_ref="§24",
)

_GATE_NOTE = ("Trusted: Coq kernel, hand model Model/Gate.v of the counters and exit/write decisions (tied by scenario-grid correspondence: the model is "
              "evaluated on the violation summaries captured at LintedDir.add in each real CLI/API run and compared with the observed exit code / "
              "write), Python oracle of the property text. Rule bodies, templater and parser are exercised, not modelled. No axioms.")
CHECKS["C22"] = dict(
    category="proof",
    text=("Coq theorems C22_lint_exit_spec, C22_lint_nofail, C22_paths_fix_exit_spec, C22_warnings_never_fail prove over all files/violation "
          "lists that lint exits 1 iff an unsuppressed non-warning violation exists and fix/format by path exit 1 iff such a lint violation "
          "remains unfixable or an unsuppressed TMP/PRS error blocks fixing; C22_stdin_exit_partial/_refuted state exactly when stdin agrees "
          "(open finding F6). Correspondence and a property oracle run on a scenario grid (TMP/PRS fatal/non-fatal x lint fixable/unfixable x "
          "noqa/ignore/warnings x fix_even_unparsable) through lint/fix/format by path, stdin, --nofail, plus usage errors (exit 2)."),
    note=_GATE_NOTE, technique="Coq proof over decision-layer model + scenario-grid correspondence with the real CLI", design_ref="§26",
)
CHECKS["C18"] = dict(
    category="proof",
    text=("Coq theorems C18_paths_gate, C18_stdin_gate, C18_api_gate prove that each entry point writes/returns fixed text only if "
          "fix_even_unparsable is set or the file has no templating/parsing violation at all (suppressed ones included). The scenario grid "
          "runs fix by path, format, fix by stdin and api fix() on files with fatal/non-fatal TMP/PRS errors suppressed by noqa/ignore/warnings "
          "and checks the text is unchanged; loop-limit runs check that a file is either stable or untouched."),
    note=_GATE_NOTE + " The fix loop's rollback is checked on real runs with runaway_limit in {1,2}; its model (FixLoop) is covered under C17/C13.",
    technique="Coq proof over decision-layer model + scenario-grid correspondence with the real CLI/API", design_ref="§22",
)
CHECKS["C19"] = dict(
    category="proof",
    text=("Coq theorems C19_write_decision_stdin_eq_paths, C19_api_gate_eq, C19_exit_agreement_partial/_refuted prove that the three entry "
          "points take the same write decision and the same exit status except in the F6 situation (open finding). Three-way comparison of "
          "violations, fixed text and exit status over the scenario grid, plus inline `-- sqlfluff:` config scenarios (rules, exclude_rules, "
          "rule options, dialect, max_line_length)."),
    note=_GATE_NOTE, technique="Coq proof over decision-layer model + three-way differential runs of the real entry points", design_ref="§23",
)

CHECKS["C26"] = dict(
    category="proof",
    text=("Coq theorem C26_atomic_and_faithful proves for every content, permission mode, suffix setting and every fault (each operation of "
          "the write path raising, or the process dying before/after it, with any prefix written) that the target holds the complete original or "
          "the complete new content with the original mode, a suffixed write never touches its input, a raised fault leaves no temp file and "
          "success is faithful; C26_multi_file_* lift this to sequences of files. The model is tied to _safe_create_replace_file by fault "
          "enumeration on the real function (each primitive made to raise, and os._exit before/after each in a subprocess) x modes x suffix x "
          "encodings, plus natural UnicodeEncodeError, a 3-file run with a failing move, and BOM/mode/suffix end to end through `sqlfluff fix`."),
    note=("Trusted: Coq kernel, hand model Model/AtomicWrite.v, the fault-injection wrappers; assumes os.rename atomicity within a directory and "
          "that os.remove in the handler succeeds. Temp-file content after a process death is not claimed (buffering). No axioms."),
    technique="Coq proof over fault model + exhaustive fault-enumeration correspondence on the real write path", design_ref="§30",
)

CHECKS["C24"] = dict(
    category="proof",
    text=("Coq theorems C24_aggregate_perm / C24_exit_perm prove that for ANY permutation of the per-file outcomes (any worker completion "
          "order, any order of the given paths; distinct files) the aggregated result -- violation totals, skipped count, records sorted by "
          "path, set of files to write, exit code -- is identical. The real runner is exercised through the CLI with processes in {1,2,4,8}, "
          "per-file delays injected inside the spawned workers (sitecustomize) to permute completion order, and permuted path lists, for "
          "lint, fix and format; results compared with the serial run and with the model's aggregate."),
    note=("Trusted: Coq kernel, hand model Model/Runner.v (aggregation bookkeeping), multiprocessing delivering each result exactly once. "
          "OS-level scheduling is exercised (delays), not modelled; `fatal` violations (none set by bundled code) would break order independence. No axioms."),
    technique="Coq proof of permutation invariance + schedule-permuting differential runs of the real runner", design_ref="§28",
)
CHECKS["C34"] = dict(
    category="proof",
    text=("Coq theorems C34_byte_skip_spec, C34_byte_skipped_not_processed, C34_char_skipped_never_linted_or_written, C34_within_limits_processed, "
          "C34_skip_fail_exit/_nofail_exit state the size gates and their accounting; C34_char_skip_counted_refuted exhibits the open finding F7 "
          "(character-limit skips are not counted). Real runs at limit-1/limit/limit+1 with multi-byte content (bytes != chars), byte and "
          "char limits, lint/fix, processes 1 and 2, large_file_skip_fail on/off; lex/parse calls traced inside workers, file bytes, "
          "files_skipped and exit codes compared with the model."),
    note=("Trusted: Coq kernel, hand model Model/Runner.v (byte_skip, char_skip, process_file), sitecustomize tracing in workers. No axioms."),
    technique="Coq proof over gate model + boundary-value correspondence runs (serial and parallel)", design_ref="§38",
)

CHECKS["C21"] = dict(
    category="proof",
    text=("Coq theorems C21_glob_correct (matcher = declarative glob semantics), C21_select_spec (for any register and selector lists the rules "
          "that run are exactly the registered rules matched by the allow list minus those matched by the deny list, through the reference map "
          "codes > names > groups > aliases or as a glob over all keys), C21_nometa_literal, and C21_bundled_registry_ok, a kernel-checked "
          "(vm_compute) fact about the registry translated from /repo on every run: unique codes, no glob metacharacters in keys, no "
          "name/group/alias shadowed, every rule in group `all`. Correspondence of get_rulepack and of the whole reference map with the model; "
          "an oracle with Python's own fnmatch; only-selected-rules-report and rule-alone-vs-with-all-others runs on fixtures."),
    note=("Trusted: Coq kernel/vm_compute, translator harness/gen_rules.py, hand models Model/Glob.v + Model/RuleSelect.v (fnmatch corner "
          "cases such as reversed ranges are outside the model). Independence of rules is monitored (alone vs together), not proved: rule "
          "bodies are not modelled. No axioms."),
    technique="Coq proof + registry translated each run + correspondence with get_rulepack", design_ref="§25",
)

CHECKS["C29"] = dict(
    category="proof",
    text=("Every bundled dialect is imported, expanded and translated on every run into a reference graph and a lexer matcher table "
          "(coq/generated/Gen_dialect_<d>.v); kernel-checked theorems closed_<d> (a reachability certificate accepted by the verified checker, "
          "C29_certificate_sound / C29_no_dangling) and lexer_ok_<d> (C29_lexer_accepts_any_character: whitespace + newline + last-resort matcher "
          "make progress on every non-empty text) are conjoined over ALL bundled dialects in all_bundled_dialects_complete / "
          "all_bundled_lexers_total. The space (bundled dialects x their reachable names) is finite and completely enumerated, so this is a "
          "proof of the property for the current tree. Each dangling (dialect, name) is replayed on the real dialect.ref(); the real lexers are "
          "run on every code point and random strings (lossless, no raise, one LXR per unlexable token)."),
    note=("Trusted: Coq kernel/vm_compute, translator harness/gen_dialects.py (cross-checked against dialect.ref()), decoder Base/Decode.v, the "
          "reading of three regex templates as first-character predicates (checked against the real `regex` on all 0x110000 code points). "
          "Open findings: references pinned as errors by test/fixtures/parity/regressions.yml. No axioms."),
    technique="translator + kernel-checked decision procedure over all bundled dialects (complete enumeration)", design_ref="§33",
)

CHECKS["C02"] = dict(
    category="proof",
    text=("Coq theorem C02_apply_lossless proves for every match result (any size, nesting, inserts) accepted by the verified certificate checker "
          "wf_b that MatchResult.apply succeeds and the token leaves of the forest it builds are exactly tokens start..stop-1, once each, in "
          "order (tokens are indices, so loss, duplication and reordering are all visible); C02_unordered_children_duplicate_refuted shows what "
          "apply does without the certificate. The model (append, wrap, apply) is tied to the real class by exhaustive small-scope and seeded "
          "random correspondence including malformed results (compared as whole trees or exception class). The certificate is evaluated in Coq "
          "on the root MatchResult of real parses, and every parse of the corpus (all dialects, fixtures + token-level mutations) is checked end "
          "to end: tree leaves = lexer tokens with text and both positions, unparsable nodes = PRS errors. PARTIAL: that every grammar combinator "
          "only produces certified results is validated per parse, not proved (the combinator engine is not modelled)."),
    note=("Trusted: Coq kernel, hand model Model/MatchResult.v (correspondence-checked), harness conversion of real MatchResults to model terms, "
          "segment classes' from_result_segments (checked end to end). No axioms."),
    technique="Coq proof of tree construction + run-time certificate checking of real parses (translation validation) + correspondence",
    design_ref="§6",
)
CHECKS["C03"] = dict(
    category="proof",
    text=("Coq theorem C03_nodes_span_children_in_order proves that in every forest built from a certified match result each node covers a "
          "contiguous increasing run of tokens equal to the concatenation of its children's runs, at every depth (nodes span exactly their "
          "children; children are in positional order). The real trees of the corpus (all dialects, fixtures + mutations incl. unbalanced "
          "brackets and truncation) are walked: templated span = first child..last child, source span = hull, child order, no non-code ends "
          "except file/unparsable, running indent balance >= 0 and 0 at the end. PARTIAL: indent balance and trimmed ends depend on the 28 "
          "dialect grammars and the combinators, which are monitored, not proved; open finding F19 (balance on inputs with unparsable sections)."),
    note=("Trusted: Coq kernel, Model/MatchResult.v (tied to the code by C02's correspondence), harness/treecheck.py walker. No axioms."),
    technique="Coq proof over the tree-construction model + end-to-end tree walk of real parses", design_ref="§7",
)
CHECKS["C04"] = dict(
    category="proof",
    text=("PARTIAL. Proved in Coq: the exception funnel of the lint pipeline (C04_funnel_total_partial: for every combination of stage outcomes, "
          "if templater/lexer/parser raise only their documented exception class and rule evaluation raises any Exception, lint returns "
          "violations; C04_other_exception_propagates: nothing else is swallowed) and C04_apply_never_raises (tree construction cannot raise on "
          "a certified result). The funnel model is tied to the real Linter by fault injection: every stage x 12 exception classes x "
          "parse/lint/fix. Not provable here: that Jinja, regex, the grammar combinators and ~90 rule bodies raise nothing else -- that part is "
          "a crash search over fixtures, mutations and hostile inputs (deep nesting, node limit, unbalanced brackets, NUL/surrogates) through "
          "Linter, the simple API and three templaters."),
    note=("Trusted: Coq kernel, hand model Model/Funnel.v, fault-injection wrappers. The universal no-crash statement over opaque components is "
          "explored, not proved. No axioms."),
    technique="Coq proof of the exception funnel + fault-injection correspondence + crash search", design_ref="§8",
)
CHECKS["C05"] = dict(
    category="proof",
    text=("PARTIAL. Proved in Coq: C05_unexpected_iff_eval_raised -- for every sequence of _eval outcomes the crawl reports an 'Unexpected "
          "exception' violation iff some _eval raised, at most one per rule -- so the monitored predicate is equivalent to 'no rule raised'. "
          "Rule bodies are not modelled: all rules (default and a table of non-default options) run in lint and fix mode on fixtures of every "
          "dialect and their mutations (partly unparsable trees); any 'Unexpected exception' violation or escaping exception is a violation."),
    note=("Trusted: Coq kernel, Model/Funnel.v crawl (tied by C04's fault injection at the rule stage). Universal statement over rule bodies is "
          "explored, not proved. No axioms."),
    technique="Coq proof of the crawl funnel (monitor soundness/completeness) + rule sweep over corpus and mutations", design_ref="§9",
)

CHECKS["C01"] = dict(
    category="proof",
    text=("Coq theorems C01_lex_lossless_contiguous (for every text, matcher table and regex oracle with non-empty in-bounds matches, the element "
          "sequence the lexer loop returns tiles the rendered text: non-empty, contiguous, increasing, covering [0,n)) and C01_lex_total (the loop "
          "terminates within n+1 rounds and never reports 'Unable to lex' when the last-resort matcher covers what the table matchers refuse; "
          "C29 discharges that hypothesis for all bundled dialects). The loop model is tied to PyLexer.lex by tabulating the real matcher objects "
          "at every position of sample strings per dialect. PARTIAL: source-position assignment for templated files (_iter_segments, "
          "placeholders, loops) is not modelled; it is monitored on real lexer output for raw/jinja/python/placeholder sources (generated "
          "templates, every placeholder style, fixtures + mutations + arbitrary Unicode in every dialect) against an oracle written from the "
          "property text. Open finding F11 (negative-length source slice for a token spanning two loop iterations); split-whitespace templated "
          "positions were repaired in /repo."),
    note=("Trusted: Coq kernel, hand model Model/Lexer.v, the per-position tabulation of real matchers, harness/lexcheck.py oracle. No axioms."),
    technique="Coq proof of the lexer loop over a regex oracle + tabulated correspondence + token-stream monitor across templaters", design_ref="§5",
)
CHECKS["C06"] = dict(
    category="proof",
    text=("PARTIAL. Proved in Coq over abstract per-option match outcomes: C06_prune_sound (for every option list, terminator set and position, "
          "first-token pruning does not change longest_match's result if every pruned option would have matched nothing) and C06_cache_transparent "
          "(for every request history the parse cache returns what a fresh match would if the context the key omits does not influence the match), "
          "with _refuted theorems showing neither condition can be dropped. That the real grammars meet both conditions is validated per parse: "
          "differential parses (cache off, pruning off, both off, after other files incl. failing ones, in another process) compared as canonical "
          "trees, and on a third of the parses every pruned option is matched anyway and must match nothing; fixtures of every dialect + mutations."),
    note=("Trusted: Coq kernel, hand model Model/ParseOpt.v of longest_match/prune_options/cache, monkeypatch wrappers. The grammar combinators are "
          "not modelled: determinism of real parses is validated, not proved. No axioms."),
    technique="Coq proof of the optimisations' side conditions + differential parsing that validates them per run", design_ref="§10",
)

CHECKS["C07"] = dict(
    category="proof",
    text=("Coq theorem C07_constructor_enforces_tiling proves, for every templater at once, that a TemplatedFile accepted by the constructor's own "
          "checks has raw slices tiling the source and rendered slices tiling the rendered SQL, in order; C07_tracer_templated_tiles / "
          "C07_tracer_source_slices_are_raw_slices prove the Jinja tracer's bookkeeping for every trace (any call sequence): recorded rendered "
          "slices are contiguous from 0 and every source slice is exactly one raw slice. Models tied by correspondence with the real "
          "TemplatedFile.__init__ (outcome class on random valid/invalid slice lists) and JinjaTracer.record_trace. PARTIAL: Jinja, the "
          "analyzer, the python slicer and the variant rectifier are not modelled; 'source slices within the file' and 'literal slices map to "
          "identical text' are checked on every variant the real jinja / python / placeholder templaters produce for generated sources "
          "(finding F3 in the rectifier was found this way and repaired). Placeholder slice construction is proved under C09."),
    note=("Trusted: Coq kernel, hand model Model/TemplatedFile.v, harness/lexcheck.py check_tf. No axioms."),
    technique="Coq proof of constructor-enforced tiling and tracer bookkeeping + correspondence + per-variant source-map monitor", design_ref="§11",
)
CHECKS["C08"] = dict(
    category="proof",
    text=("PARTIAL (Jinja is an oracle). Coq theorems C08_fast_path_sound / C08_fast_path_exact: a text without `{{`, `{%`, `{#` is one data token "
          "of Jinja's root lexer state and renders to itself, and any marker ends the data token, so the fast-path test is exact; "
          "C08_newlines_normalised: render_string's newline normalisation yields CR-free text, is the identity on CR-free text and idempotent. "
          "Model tied by exhaustive correspondence with the templater's regex and Linter._normalise_newlines (and a source check that the "
          "regex is still the modelled one). Fidelity itself is validated against the real Jinja: primary rendering vs "
          "env.from_string(source, globals=context).render() with sqlfluff's own environment and context (incl. its undefined-variable stubs) "
          "for generated templates x contexts, marker-free files with lone braces, CR/CRLF, trailing newlines, whitespace control, undefined "
          "variables with/without ignore=templating."),
    note=("Trusted: Coq kernel, hand model Model/JinjaFast.v, Jinja2 as arbiter. No axioms."),
    technique="Coq proof of the fast-path condition + differential rendering against Jinja (translation validation)", design_ref="§12",
)

CHECKS["C10"] = dict(
    category="proof",
    text=("PARTIAL. Coq theorem C10_protected_ranges_survive: for every set of patch buffers (all rules, all variants), every source and every "
          "ascending list of protected ranges (template tags, expressions, comments, placeholder parameters), if no applied patch overlaps a "
          "protected range then every protected range's text is in the fixed source unchanged and in order (patch merge + slicer/builder model of "
          "C30; stated for the slicer without source-only slices). The hypothesis is evaluated on the real merged patch list of every run and "
          "the conclusion is checked end to end: ordered (kind, text) of all non-literal raw slices before and after fixing, for generated "
          "Jinja templates x 2 contexts x rule sets, python format strings and every placeholder style (JJ01 padding allowed inside tags). "
          "Open finding F22 (LT02 source-level patch deleting a template expression)."),
    note=("Trusted: Coq kernel, Model/Patch.v (C30 correspondence), harness/fixcheck.py. The filter that keeps rule-generated patches off "
          "template code is validated per run, not modelled. No axioms."),
    technique="Coq frame theorem over the patch-application model + per-run validation of its hypothesis and end-to-end template-part comparison",
    design_ref="§14",
)
CHECKS["C11"] = dict(
    category="proof",
    text=("PARTIAL. Coq theorems C11_untouched_ranges_survive (any ascending ranges no applied patch overlaps are copied verbatim and in order), "
          "C11_no_patches_identity, C11_newlines (reading's newline normalisation is idempotent and the identity on LF-only text), on top of "
          "C30_apply_exact. On the implementation: the fixed text of real fixes (fixtures of every dialect, mutations, generated templates; "
          "layout/core/all/capitalisation) must be the source with a disjoint subset of the reported patches substituted for exactly their "
          "ranges; at byte level files in utf-8 / utf-8-sig / latin-1 / autodetected encodings, CRLF, > 8 KiB with late non-ASCII, and "
          "undecodable bytes are fixed through lint_paths and every untouched line must be byte-identical, BOM kept, no-fix files keep bytes "
          "and mtime. Open finding F10 (undecodable bytes written back as escape text)."),
    note=("Trusted: Coq kernel, Model/Patch.v, the subset-splice oracle; codecs/chardet/rule bodies are exercised, not modelled. No axioms."),
    technique="Coq frame theorem + splice oracle on real fixes + byte-level file comparison", design_ref="§15",
)

CHECKS["C12"] = dict(
    category="proof",
    text=("PARTIAL. Whether an edit glues or splits tokens depends on the dialect regexes and the reflow engine, which are not modelled; the "
          "engine's own re-parse validation works on token lists and cannot see a merge in the TEXT. Proved in Coq: the comparator "
          "(C12_comparator_exact: accepted iff same boundaries and kinds position by position). Every fix of the corpus (fixtures of every "
          "dialect, mutations, operator/keyword adjacency cases; layout, core, all and the format rule list; clean inputs only) is re-lexed and "
          "compared with the fixed tree's leaves: boundaries exactly, kinds through the lexer (context-dependent matchers tolerated when the "
          "token had that kind before). Open finding F16 (`- -5` -> `--5`, `~ ~5` -> `~~5`)."),
    note=("Trusted: Coq kernel, Model/TokenRel.v, harness/fixcheck.py. Universal statement over rules is validated per run, not proved. No axioms."),
    technique="verified comparator (Coq) + re-lex translation validation of every fix", design_ref="§16",
)
CHECKS["C13"] = dict(
    category="proof",
    text=("PARTIAL. Coq theorems over the fix-loop model (phases, passes, last_fixes short-circuit, previous_versions, loop limit) with rules and "
          "apply_fixes as oracle: C13_loop_only_adopts_validated (for every rule set, limit and pass count the returned tree is related to the "
          "input by any reflexive-transitive relation every VALIDATED proposal respects -- e.g. 'still parses') and C13_limit_rollback. The "
          "model's adoption gate is trace-validated: every apply_fixes call of real runs is replayed through it and must carry forward the same "
          "tree. The truthfulness of the validity flag for the written TEXT is checked per run: cleanly parsing inputs (all dialects, mutations, "
          "adjacency cases; 4 rule sets) are fixed and the fixed text re-rendered, re-lexed and re-parsed. Open finding F16."),
    note=("Trusted: Coq kernel, hand model Model/FixLoop.v (trace-validated), harness/fixcheck.py. No axioms."),
    technique="Coq proof over the fix-loop model + trace validation of the adoption gate + re-parse of every fixed text", design_ref="§17",
)
CHECKS["C14"] = dict(
    category="proof",
    text=("PARTIAL (reflow engine not modelled). Coq: 'only whitespace changed' (same code-token texts in order, same multiset of comments) is an "
          "equivalence with a correct boolean checker (C14_ws_only_equivalence, C14_checker_correct) and lifts through the whole fix loop for any "
          "number of passes, both phases and any limit (C14_ws_only_through_loop). Per run: the layout group under six layout configurations "
          "(comma/operator positions, indent units, line lengths, indented joins/ctes) on clean inputs of every dialect, mutations and adjacency "
          "cases; original vs fixed token lists compared, and the comparator cross-evaluated in Coq on a sample."),
    note=("Trusted: Coq kernel, Model/TokenRel.v, Model/FixLoop.v, harness token extraction. No axioms."),
    technique="Coq proof of the whitespace-only relation and its lift through the fix loop + token comparison of real layout fixes", design_ref="§18",
)
CHECKS["C17"] = dict(
    category="proof",
    text=("PARTIAL (rules are an oracle). Coq: C17_no_fix_identity (a tree on which no enabled rule proposes a fix is returned unchanged: the fixpoint "
          "condition), C17_limit_rollback, and C17_same_fixes_shortcircuit_not_idempotent_refuted (the `fixes == last_fixes` short-circuit can end "
          "a run at a non-fixpoint: the abstract shape of a non-idempotent run). Per run: fix is executed twice (format rule list, layout, all, "
          "core) on clean inputs of every dialect, mutations and adjacency cases; the second output must equal the first."),
    note=("Trusted: Coq kernel, Model/FixLoop.v (trace-validated under C13), harness/fixcheck.py. No axioms."),
    technique="Coq proof of the loop's fixpoint condition + fix-twice validation", design_ref="§21",
)

CHECKS["C15"] = dict(
    category="proof",
    text=("Coq theorems C15_transforms_case_only / C15_consistent_policy_choice / C15_fix_changes_only_case / C15_single_replace_frame prove for "
          "every token list, option list, ignore predicate, targeting and number of fix-loop passes that under the policies consistent, upper, "
          "lower, capitalise, pascal, camel the model of CP01._handle_segment (reused by CP02-CP05) keeps the number and kinds of tokens, changes "
          "targeted tokens only in ASCII letter case and leaves untargeted ones identical; C15_snake_case_only_refuted / C15_fix_snake_refuted "
          "exhibit aB -> a_b (F13) and C15_fix_any_policy_case_and_underscores bounds snake to case+underscores. Tied by exhaustive correspondence "
          "(all strings <=5 over {a,B,1,_,space}; all token sequences <=3 over a word pool x 11 rule/policy pairs; random + malformed) and by "
          "checking every fix the real linter made against the model; monitored end to end: each CP rule x each policy on fixtures of all 28 "
          "dialects + mutations, token-wise input/output comparison."),
    note=("Trusted: Coq kernel/vm_compute, hand model Model/Caps.v (ASCII case functions; pascal/camel exact for all code points), the sqlfluff "
          "lexer used to tokenise. Which tokens a rule targets is abstract in the model (C15_frozen_tokens_unchanged_partial states the missing "
          "hypothesis) and is checked only by the monitor (open findings F13, F23, F24; the CP05 comment defect was repaired). No axioms."),
    technique="Coq proof over hand model + exhaustive small-scope correspondence + translation validation of real fixes + end-to-end token monitor",
    design_ref="§19",
)
CHECKS["C23"] = dict(
    category="proof",
    text=("PARTIAL (which anchor a rule reports is not modelled). Coq theorem C23_position_record_exact, on the line/column model proved and "
          "correspondence-checked under C31: the machine-readable position record of a source range is consistent (line/col are the conversion of "
          "the offsets), lies in the file, identifies the first character of the range, and start line <= end line. Checked on every violation of "
          "real lint runs (all rules; fixtures of every dialect, mutations incl. unparsable/unlexable text, generated Jinja / python / "
          "placeholder sources): within the file, equal to the anchor's source start, literal anchors' source text equals the anchor text, "
          "offsets vs line/col; and through the CLI in json / yaml / github-annotation-native / sarif formats, which must agree. Finding F12 "
          "(fatal TMP errors at line 0 / column 0) was found this way and repaired."),
    note=("Trusted: Coq kernel, Model/LineCol.v (C31 correspondence), the oracle in harness/props/c23.py, json/yaml libraries. No axioms."),
    technique="Coq proof of the position record over the C31 model + position monitor on API and CLI outputs", design_ref="§27",
)

CHECKS["C32"] = dict(
    category="proof",
    text=("PARTIAL. Coq theorem C32_memoised_state_transparent: state that survives between operations in the form of memo tables (the cached config "
          "loaders, grammar caches) is invisible for EVERY history of requests provided the memoised function depends only on its key, and "
          "C32_refuted shows the proviso is needed -- so repeatability reduces to 'inputs do not change between operations', the read-only half. "
          "Both halves are checked on real histories: seeded random sequences of lint / parse / render over a file pool (nested configs for three "
          "dialects and four templaters, Jinja blocks and macros, noqa, disable_noqa_except, files failing to template / lex / parse) in one "
          "process, every result compared with the same operation in a fresh process; bytes, mtimes, directory listing and write-mode opens "
          "are checked around the API operations and around the CLI commands lint (serial and 2 processes), parse and render."),
    note=("Trusted: Coq kernel, Model/ParseOpt.v cache model, snapshot/open interception. The lexer's class-level block tracker is exercised by the "
          "histories (Jinja blocks, failing files), not modelled. No axioms."),
    technique="Coq proof that memoised state is history-transparent + history runs vs fresh processes + file-system snapshots", design_ref="§36",
)

CHECKS["C09"] = dict(
    category="proof",
    text=("Coq theorems: C09_placeholder_render / _replacement / _slices_tile prove for every source, context and sorted non-overlapping match list "
          "that the placeholder templater outputs the source with exactly the matched spans replaced by the configured value or the kept name "
          "(quotes kept, positional styles numbered from 1) and that its slices tile source and output; C09_dot_hack_correct_partial / "
          "C09_valid_renders_partial prove, for arbitrary values and format oracles, that the python templater's regex rewrite followed by str.format "
          "equals the documented semantics on the format strings described by safe_list; four _refuted theorems (escaped brace = F4, conversion on a "
          "dotted field, whitespace in its spec, adjacent field swallowed) show the full statement false. Models tied by correspondence to re.sub, "
          "CPython's formatter_parser / str.format, render_func and PlaceholderTemplater.process (exhaustive small scope, fixed grid, seeded random, "
          "malformed stream, fake-regex span lists); an independent string.Formatter arbiter and a by-construction placeholder oracle run end to end "
          "on the real templaters for all 12 KNOWN_STYLES. Open findings F4, F4b, F27; F26 repaired."),
    note=("Trusted: Coq kernel/vm_compute; hand models Model/PyFormat.v, Model/Placeholder.v (under correspondence); CPython 3.12 str.format / "
          "string.Formatter as arbiter; format(value, spec), repr/str/ascii and attribute/item lookup as recorded oracle tables; regex.finditer as oracle "
          "(real matches shipped; the 12 style regexes are not modelled). PythonTemplater's slicing heuristics are monitored, not modelled; "
          "`ignore = templating` fallback path not covered. No axioms."),
    technique="Coq proof over hand models + exhaustive small-scope / random correspondence with CPython and sqlfluff + arbiter monitor on the real templaters",
    design_ref="§13",
)

CHECKS["C28"] = dict(
    category="proof",
    text=("Coq theorems C28_simplify_leaves / C28_simplify_nesting / C28_simplify_lossless prove for every tuple form (with or without position "
          "dicts) that structural_simplify's record lists the same (type, text) entries in the same order under the same node-type paths and "
          "determines the tuple (dict for unique child keys, list of single-key dicts for repeated ones, None for empty); C28_to_tuple_concat / "
          "_tokens / _nesting / _tokens_code_only and the C28_as_record_* corollaries prove for every segment tree that the JSON/YAML/API record "
          "lists every raw segment once, in file order, under its ancestor types and that the texts concatenate to the tree's raw. For the human "
          "format C28_human_file_order_refuted exhibits a comment_separate (unparsable) node whose comments are printed first (open finding F28); "
          "C28_human_every_token_once_partial / C28_human_tokens_partial state what holds. Tied by correspondence (exhaustive small tuples and trees of "
          "the real segment classes, random and malformed streams, real parse trees; all 16 to_tuple flag combinations) and monitored end to end: "
          "`sqlfluff parse` in human/json/yaml with/without -m/-c and sqlfluff.parse on fixtures + mutations + Jinja templates of all 28 dialects, "
          "flattened by independent duplicate-key-detecting readers and compared with the tree, the lexer tokens, the rendered SQL and source positions."),
    note=("Trusted: Coq kernel/vm_compute, hand model Model/Record.v (get_type() abstracted; metas have raw ''), the adapter real segment -> model term, "
          "generated/Gen_c28_codec.v (input round-trip checked per case; outputs compared by length + 63-bit hash, exact streams on mismatch), "
          "json/PyYAML loaders. No axioms."),
    technique="Coq proof over hand model + exhaustive/random model-implementation correspondence + end-to-end CLI/API monitor with independent readers",
    design_ref="§32",
)
CHECKS["C16"] = dict(
    category="proof",
    text=("PARTIAL. Coq theorems C16_st01_else_null, C16_st02_case_to_coalesce, C16_st04_flatten_nested_case, C16_cv02_ifnull_to_coalesce prove for "
          "every row and every expression that the tree rewrites of ST01, ST02, ST04 and CV02 preserve the expression's value under a "
          "three-valued SQLite-style semantics; the semantics is validated against SQLite on generated expressions x rows, and the rewrite "
          "models against the output of the real single rules. All other rules are covered by search only: generated executable SELECT / CTE / "
          "UNION / subquery / JOIN / GROUP BY queries over a fixed schema with random contents are fixed with every rule except ST06 and CV05 "
          "(sqlite dialect) and executed in SQLite before and after; the multiset (sequence under ORDER BY) of rows must be equal."),
    note=("Trusted: Coq kernel, hand model Model/SqlSem.v (validated against SQLite), the expression printer, SQLite as arbiter. The universal "
          "statement over all rules and queries is explored, not proved. No axioms."),
    technique="Coq proof of the semantic rewrites + model-vs-SQLite correspondence + before/after execution search", design_ref="§20",
)

CHECKS["C25"] = dict(
    category="proof",
    text=("Coq theorems C25_walk_spec_abs / C25_paths_from_path_abs prove for every directory tree, pathspec oracle, outer specs and extensions that an "
          "absolutely spelled path selects exactly the files with a configured extension that no outer (ancestor) ignore spec and no spec found "
          "between the path and the file matches and that have no pruned ancestor; C25_walk_spec_rel / C25_spelling_invariance_walk prove the same "
          "characterisation and the same selection for every relative spelling (after the repair of F8), C25_spelling_invariance_partial lifts it to "
          "paths_from_path as a whole for spellings without `..` (x, ./x, x/, ., a//b) and C25_spelling_invariance_abs_trailing_slash for /a/b vs "
          "/a/b/; C25_f8_witness_repaired pins the repaired defect and C25_dotdot_spelling_refuted exhibits the remaining `..` dependence (open "
          "finding F31). The string-level model (posixpath join/normpath/abspath/relpath, os.walk with the mutated inner-spec list, "
          "iter_intermediate_paths) is tied by exact-output correspondence with the real paths_from_path on exhaustively enumerated small trees x "
          "ignore files x spellings x working directories x working paths in a temp dir (12k calls quick, 270k thorough); two oracles written from "
          "the property text (same selection for every spelling; exact selection) run on the real outputs."),
    note=("Trusted: Coq kernel/vm_compute, hand model Model/Discovery.v (tied on every call; posixpath fragments also compared exhaustively on short "
          "strings), pathspec as tabulated oracle, lexical treatment of '..'/symlinks, ASCII lower(), harness adapters (fail-closed, canary). "
          "'Applicable ancestor' = directories between the working path and the path (documented search area). No axioms."),
    technique="Coq proof over string-level hand model + exhaustive small-scope correspondence on real directory trees + property oracles on real outputs",
    design_ref="§29",
)

CHECKS["C27"] = dict(
    category="proof",
    text=("Coq theorems over Model/Config.v (line-by-line model of nested_combine, the ini/toml loaders, load_config_at_path, iter_intermediate_paths, "
          "load_config_up_to_path, FluffConfig.__init__/from_path, set_value and the inline-directive scanner, and a lint run with both functools caches "
          "as explicit state): C27_combine_rightmost / C27_combine_raises_iff (what nested_combine shows at every path; exactly when it raises), "
          "C27_combine_assoc(_prefix/_observed) (staged = flat), C27_precedence (for EVERY file system, HOME/XDG/cwd, root config and file the effective "
          "config shows at every path the highest of defaults < user appdir < home < dirs between home and file < dirs from cwd to the file "
          "(setup.cfg<tox.ini<pep8.ini<.sqlfluff<pyproject.toml) < extra file < overrides, then the file's own inline directives), C27_isolation / "
          "C27_run_pointwise / C27_cache_transparent (a file's config depends only on the directories it is read from and its own text; the caches change "
          "nothing), C27_dialect_required_after_inline / C27_path_and_string_pipelines_agree / C27_inline_only_dialect_honoured (after the repair of F34). "
          "Tied to the code by exhaustive small-scope + seeded correspondence of every modelled function and by generated hierarchies "
          "(ini/toml, nested/sibling/outside dirs, appdir/XDG, extra path, overrides, inline incl. malformed) checked per file through FluffConfig.from_path, "
          "Linter.load_raw_file_and_config and real Linter.lint_paths histories in several orders with warm caches; independent monitors: 12-layer "
          "precedence ladder oracle, file-alone == file-in-sequence (config and violations), LT05 lines predicted from the effective config, "
          "lint_string/parse_string inline isolation, CLI vs API."),
    note=("Trusted: Coq kernel, hand model Model/Config.v, scenario materialiser/value encoding, HOME/XDG/cwd redirection (in-process; "
          "discovery.paths_from_path's import-time working_path default is re-bound per scenario). Not modelled: validate_config_dict, "
          "_resolve_paths_in_config, symlinks, unknown dialect/templater names, derived core keys (monitored separately); TypeError/AttributeError/"
          "OSError/SQLFluffUserError all map to ERuntime. Python-object aliasing is checked by refinement only. "
          "C27_staged_equals_flat_unconditionally_refuted: a per-directory stage can hide nested_combine's ValueError (behavioural quirk). No axioms."),
    technique="Coq proof over executable model + exhaustive/seeded correspondence + history refinement + independent oracles", design_ref="§31",
)

NOT_YET = "no check built yet in this round (planned: see DESIGN.md section for this property)"


def claimed():
    return [p for p in ALL if p in CHECKS]


def manifest():
    checks = []
    for pid in claimed():
        c = CHECKS[pid]
        checks.append({
            "property_id": pid,
            "quick_cmd": "./check %s --tier quick" % pid,
            "thorough_cmd": "./check %s --tier thorough" % pid,
            "evidence_file": "/verif/evidence/%s.json" % pid,
            "replay_cmd_template": "./check %s --replay {path}" % pid,
            "engine": "coq+harness",
            "level_claimed": {"category": c["category"], "text": c["text"], "design_ref": c.get("design_ref", "")},
            "level_note": c["note"],
            "technique": c["technique"],
        })
    return {
        "version": 1,
        "setup_cmd": "cd /verif && ./setup.sh",
        "hooks": {
            "guard": "SQLFLUFF_VERIF",
            "enable": "no source hooks: checks set SQLFLUFF_VERIF=1 and wrap functions from the harness (monkeypatch / sitecustomize for spawned workers)",
            "baseline_off_cmd": "cd /repo && env -u SQLFLUFF_VERIF /venv/bin/python -m pytest -ra -q -p no:cacheprovider --timeout=900 --continue-on-collection-errors",
            "source_commits": [],
            "add_only": True,
        },
        "engines": [{
            "name": "coq+harness", "path": "/verif/check", "serves_properties": claimed(),
            "kind_free_text": "Coq 8.16 development (coq/theories: Model, Proofs, Properties) + translators (tools/, harness/gen_*) + Python correspondence/monitor harness (harness/props)",
        }],
        "checks": checks,
        "notes": "See DESIGN.md. known_findings.json lists genuine defects recorded rather than repaired.",
        "not_applicable": [{"property_id": p, "reason": NA.get(p, NOT_YET)} for p in ALL if p not in CHECKS],
    }


NA = {}

if __name__ == "__main__":
    json.dump(manifest(), open("/verif/MANIFEST.json", "w"), indent=1)
    print("wrote MANIFEST.json with %d checks" % len(claimed()))
