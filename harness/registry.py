"""Per-property registration data; tools/mkmanifest.py turns this into MANIFEST.json."""
import json

ALL = ["C%02d" % i for i in range(1, 35)]

# id -> dict(category, text, note, technique, design_ref)
CHECKS = {
    "C31": dict(
        category="proof",
        text=("Coq theorems C31_line_pos_spec / C31_line_pos_in_file / C31_infer_next_spec prove, for every text and every offset in it, "
              "that the model of get_line_pos_of_char_pos returns (1 + #newlines before, 1-based column) and that infer_next_position "
              "agrees with recomputation; the hand model is tied to the code by exhaustive correspondence (all strings over {a,LF,CR} up to "
              "length 6/8 x all offsets, source and rendered side) plus random Unicode and real lexed tokens."),
        note=("Trusted: Coq kernel/vm_compute, the hand transcription Model/LineCol.v (checked by correspondence, exhaustive in small scope), "
              "bisect_left modelled as count of smaller elements, harness printer/parser. No axioms (Print Assumptions: closed)."),
        technique="Coq proof over hand model + exhaustive small-scope model/implementation correspondence",
        design_ref="§35",
    ),
}

NOT_YET = "no check built yet in this round (planned: see DESIGN.md section for this property)"


def claimed():
    return [p for p in ALL if p in CHECKS]


def manifest():
    checks = []
    for pid in claimed():
        c = CHECKS[pid]
        checks.append({
            "property_id": pid,
            "quick_cmd": "./check %s --tier quick" % pid,
            "thorough_cmd": "./check %s --tier thorough" % pid,
            "evidence_file": "/verif/evidence/%s.json" % pid,
            "replay_cmd_template": "./check %s --replay {path}" % pid,
            "engine": "coq+harness",
            "level_claimed": {"category": c["category"], "text": c["text"], "design_ref": c.get("design_ref", "")},
            "level_note": c["note"],
            "technique": c["technique"],
        })
    return {
        "version": 1,
        "setup_cmd": "cd /verif && ./setup.sh",
        "hooks": {
            "guard": "SQLFLUFF_VERIF",
            "enable": "no source hooks: checks set SQLFLUFF_VERIF=1 and wrap functions from the harness (monkeypatch / sitecustomize for spawned workers)",
            "baseline_off_cmd": "cd /repo && env -u SQLFLUFF_VERIF /venv/bin/python -m pytest -ra -q -p no:cacheprovider --timeout=900 --continue-on-collection-errors",
            "source_commits": [],
            "add_only": True,
        },
        "engines": [{
            "name": "coq+harness", "path": "/verif/check", "serves_properties": claimed(),
            "kind_free_text": "Coq 8.16 development (coq/theories: Model, Proofs, Properties) + translators (tools/, harness/gen_*) + Python correspondence/monitor harness (harness/props)",
        }],
        "checks": checks,
        "notes": "See DESIGN.md. known_findings.json lists genuine defects recorded rather than repaired.",
        "not_applicable": [{"property_id": p, "reason": NA.get(p, NOT_YET)} for p in ALL if p not in CHECKS],
    }


NA = {}

if __name__ == "__main__":
    json.dump(manifest(), open("/verif/MANIFEST.json", "w"), indent=1)
    print("wrote MANIFEST.json with %d checks" % len(claimed()))
