"""Run every translator (used by setup.sh)."""
import importlib
import sys
import traceback

from harness import core, registry


def main():
    seen = set()
    rc = 0
    for pid in registry.claimed():
        mod = importlib.import_module("harness.props.%s" % pid.lower())
        for gen in getattr(mod, "GENERATORS", []):
            if gen in seen:
                continue
            seen.add(gen)
            try:
                gen(core.Ctx(pid, "quick", 0))
            except Exception:
                traceback.print_exc()
                rc = 1
    return rc


if __name__ == "__main__":
    sys.exit(main())
