"""Instrumentation for *spawned* sqlfluff worker processes (and CLI subprocesses) started by the verification harness.

Active only when SQLFLUFF_VERIF=1 and SQLFLUFF_VERIF_TRACE or SQLFLUFF_VERIF_DELAYS is set. Adds no behaviour otherwise.
 - SQLFLUFF_VERIF_TRACE=<file>: append one line per Linter._lex_templated_file / _parse_tokens / lint_rendered / render_file call ("<op> <pid> <fname>").
 - SQLFLUFF_VERIF_DELAYS=<json {basename: seconds}>: sleep before rendering that file (permutes worker completion order).
"""
import os

if os.environ.get("SQLFLUFF_VERIF") == "1" and (os.environ.get("SQLFLUFF_VERIF_TRACE") or os.environ.get("SQLFLUFF_VERIF_DELAYS")):
    try:
        import json
        import time

        from sqlfluff.core.linter.linter import Linter

        _trace = os.environ.get("SQLFLUFF_VERIF_TRACE")
        _delays = json.loads(os.environ.get("SQLFLUFF_VERIF_DELAYS") or "{}")

        def _log(op, fname):
            if _trace:
                with open(_trace, "a") as f:
                    f.write("%s %d %s\n" % (op, os.getpid(), os.path.basename(str(fname))))

        _render_file = Linter.render_file

        def render_file(self, fname, root_config):
            d = _delays.get(os.path.basename(str(fname)))
            if d:
                time.sleep(d)
            _log("render_file", fname)
            return _render_file(self, fname, root_config)

        Linter.render_file = render_file

        _lex_tf = Linter._lex_templated_file

        def _lex_templated_file(templated_file, config):
            _log("lex", templated_file.fname)
            return _lex_tf(templated_file, config)

        Linter._lex_templated_file = staticmethod(_lex_templated_file)

        _parse_tokens = Linter._parse_tokens

        def parse_tokens(tokens, config, fname=None, parse_statistics=False):
            _log("parse", fname)
            return _parse_tokens(tokens, config, fname, parse_statistics)

        Linter._parse_tokens = staticmethod(parse_tokens)

        _lint_rendered = Linter.lint_rendered.__func__

        def lint_rendered(cls, rendered, rule_pack, fix=False, formatter=None):
            _log("lint", rendered.fname)
            return _lint_rendered(cls, rendered, rule_pack, fix, formatter)

        Linter.lint_rendered = classmethod(lint_rendered)
    except Exception as _e:  # never break the process under test
        import sys
        sys.stderr.write("verif sitecustomize failed: %r\n" % (_e,))
