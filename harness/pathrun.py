"""Helpers to run sqlfluff over directories in subprocesses with worker instrumentation (C24, C34, C32)."""
import json
import os
import subprocess
import sys

SITE = "/verif/harness/site"


def env_for(trace=None, delays=None):
    env = dict(os.environ)
    env["PYTHONPATH"] = os.environ.get("VERIF_REPO", "/repo") + "/src:" + SITE + ":/verif"
    env["PYTHONHASHSEED"] = "0"
    env["SQLFLUFF_VERIF"] = "1"
    env.pop("SQLFLUFF_VERIF_TRACE", None)
    env.pop("SQLFLUFF_VERIF_DELAYS", None)
    if trace:
        env["SQLFLUFF_VERIF_TRACE"] = trace
    if delays:
        env["SQLFLUFF_VERIF_DELAYS"] = json.dumps(delays)
    return env


def cli(args, cwd, trace=None, delays=None, input=None, timeout=600):
    p = subprocess.run([sys.executable, "-m", "sqlfluff"] + args, cwd=cwd, env=env_for(trace, delays), input=input,
                       stdout=subprocess.PIPE, stderr=subprocess.PIPE, text=True, timeout=timeout)
    return p.returncode, p.stdout, p.stderr


def driver(spec, cwd, trace=None, delays=None, timeout=600):
    p = subprocess.run([sys.executable, "-m", "harness.run_paths", json.dumps(spec)], cwd=cwd, env=env_for(trace, delays),
                       stdout=subprocess.PIPE, stderr=subprocess.PIPE, text=True, timeout=timeout)
    for line in p.stdout.split("\n"):
        if line.startswith("VERIF_JSON "):
            return json.loads(line[len("VERIF_JSON "):]), p.stderr
    return {"error": "rc=%d %s" % (p.returncode, (p.stdout + p.stderr)[-800:])}, p.stderr


def read_trace(path):
    try:
        return [l.split() for l in open(path).read().split("\n") if l.strip()]
    except FileNotFoundError:
        return []
