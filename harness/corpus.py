"""Shared SQL corpus, mutators and a process pool for the pipeline monitors (C01-C06, C12-C17, C23, C28, C32)."""
import glob
import multiprocessing
import os
import re
import traceback

from harness import core

_TOK = re.compile(r"\w+|\s+|--|/\*|\*/|.", re.S)


def dialects():
    from sqlfluff.core.dialects import dialect_readout
    return sorted(r.label for r in dialect_readout())


def fixture_files(dialect):
    return sorted(glob.glob(os.path.join(core.REPO, "test/fixtures/dialects", dialect, "*.sql")))


def read(path):
    with open(path, encoding="utf-8", errors="replace") as f:
        return f.read()


def sample_fixtures(rng, per_dialect, max_chars=1500, only=None):
    """[(dialect, name, sql)] — a seeded sample of fixture files of every dialect (short ones: they dominate the corpus anyway)."""
    out = []
    for d in (only or dialects()):
        files = fixture_files(d)
        rng.shuffle(files)
        n = 0
        for p in files:
            if n >= per_dialect:
                break
            s = read(p)
            if 0 < len(s) <= max_chars:
                out.append((d, os.path.basename(p), s))
                n += 1
    return out


MUTATIONS = ["del_tok", "dup_tok", "swap_tok", "truncate", "drop_bracket", "add_bracket", "unterminated_quote", "inject_comment",
             "inject_weird", "splice_kw", "del_ws"]


def mutate(rng, sql, kind=None):
    """One token-level mutation of `sql` (returns (kind, text))."""
    toks = _TOK.findall(sql)
    if not toks:
        return "noop", sql
    kind = kind or rng.choice(MUTATIONS)
    i = rng.randrange(len(toks))
    if kind == "del_tok":
        del toks[i]
    elif kind == "dup_tok":
        toks.insert(i, toks[i])
    elif kind == "swap_tok" and len(toks) > 1:
        j = min(len(toks) - 1, i + 1)
        toks[i], toks[j] = toks[j], toks[i]
    elif kind == "truncate":
        toks = toks[:max(1, i)]
    elif kind == "drop_bracket":
        idx = [k for k, t in enumerate(toks) if t in "()[]{}"]
        if idx:
            del toks[rng.choice(idx)]
    elif kind == "add_bracket":
        toks.insert(i, rng.choice(["(", ")", "[", "]"]))
    elif kind == "unterminated_quote":
        toks.insert(i, rng.choice(["'", '"', "`", "/*", "$$"]))
    elif kind == "inject_comment":
        toks.insert(i, rng.choice([" -- c\n", " /* c */ ", "\n-- noqa\n", " -- noqa: disable=all\n"]))
    elif kind == "inject_weird":
        toks.insert(i, rng.choice(["\x00", "﻿", " ", " ", "\U0001F600", "\x0b", "\\", "?", "@", "#", "$", "é"]))
    elif kind == "splice_kw":
        toks.insert(i, rng.choice([" SELECT ", " FROM ", " WHERE ", " AND ", " , ", " ; ", " CASE ", " END ", " JOIN ", " ON ", " AS ", " NOT ", " - ", " * "]))
    elif kind == "del_ws":
        idx = [k for k, t in enumerate(toks) if t.isspace()]
        if idx:
            del toks[rng.choice(idx)]
    return kind, "".join(toks)


def corpus(rng, per_dialect, mutations_per_file, max_chars=1500, only=None):
    """[(dialect, label, sql)]: fixtures and their mutations."""
    out = []
    for d, name, sql in sample_fixtures(rng, per_dialect, max_chars, only=only):
        out.append((d, name, sql))
        for _ in range(mutations_per_file):
            k, m = mutate(rng, sql)
            out.append((d, "%s~%s" % (name, k), m))
    return out


def _call(args):
    modname, funcname, case = args
    try:
        import importlib
        mod = importlib.import_module(modname)
        return ("ok", getattr(mod, funcname)(*case))
    except BaseException as e:  # noqa
        return ("crash", "".join(traceback.format_exception(type(e), e, e.__traceback__))[-3000:])


def pmap(modname, funcname, cases, procs=None, chunksize=4, timeout_s=None):
    """Evaluate module.func(*case) for every case in a fork pool. Yields (case, status, result) in order."""
    procs = procs or int(os.environ.get("VERIF_PROCS", "12"))
    if not cases:
        return
    ctx = multiprocessing.get_context("fork")
    with ctx.Pool(processes=min(procs, len(cases))) as pool:
        for case, (st, res) in zip(cases, pool.imap(_call, [(modname, funcname, c) for c in cases], chunksize=chunksize)):
            yield case, st, res


# ---- templated sources -----------------------------------------------------------------------------------------------------------
SQL_FRAGS = ["a", "b + 1", "t.c", "'x'", "count(*)", "a,\n    b", "x  as  y", "1", "foo(a , b)", "CASE WHEN a THEN 1 END"]
TABLES = ["t", "s.tbl", "my_table AS m", "(select 1) q"]


def gen_jinja(rng, depth=0):
    """A Jinja template around SQL fragments: if/elif/else, for, set, macro, comments, whitespace control; nesting <= 3."""
    ws = lambda: rng.choice(["", "-"])  # noqa: E731

    def block(d):
        k = rng.choice(["lit", "lit", "expr", "if", "for", "set", "comment", "macro"] if d < 3 else ["lit", "expr", "comment"])
        if k == "lit":
            return rng.choice(SQL_FRAGS)
        if k == "expr":
            return "{{%s %s %s}}" % (ws(), rng.choice(["col", "n", "tbl", "items[0]", "col | upper", "undefined_thing"]), ws())
        if k == "comment":
            return "{#%s a comment %s#}" % (ws(), ws())
        if k == "set":
            return "{%%%s set v = %s %s%%}%s" % (ws(), rng.choice(["1", "'z'", "items"]), ws(), "{{ v }}" if rng.random() < 0.5 else "")
        if k == "if":
            s = "{%%%s if %s %s%%}%s" % (ws(), rng.choice(["flag", "not flag", "n > 1", "undefined_flag"]), ws(), block(d + 1))
            if rng.random() < 0.4:
                s += "{%% elif %s %%}%s" % (rng.choice(["other", "n == 2"]), block(d + 1))
            if rng.random() < 0.6:
                s += "{%%%s else %s%%}%s" % (ws(), ws(), block(d + 1))
            return s + "{%%%s endif %s%%}" % (ws(), ws())
        if k == "for":
            return "{%%%s for i in %s %s%%}%s{{ i }}%s{%%%s endfor %s%%}" % (
                ws(), rng.choice(["items", "range(2)", "[]", "['p', 'q', 'r']"]), ws(), block(d + 1), rng.choice([", ", "\n", " + "]), ws(), ws())
        return "{% macro m(x) %}{{ x }}_m{% endmacro %}{{ m('" + rng.choice(["a", "b"]) + "') }}"
    parts = ["SELECT\n    ", block(depth), rng.choice([",\n    ", ", "]), block(depth), "\nFROM ", rng.choice(TABLES)]
    if rng.random() < 0.5:
        parts += ["\nWHERE ", block(depth), " = 1"]
    return "".join(parts) + rng.choice(["\n", "", ";\n"])


JINJA_CONTEXTS = [
    {"col": "my_col", "n": 2, "tbl": "tt", "items": ["u", "v"], "flag": True, "other": False},
    {"col": "c2", "n": 1, "tbl": "x.y", "items": [], "flag": False, "other": True},
]


def gen_pyformat(rng):
    fields = ["{a}", "{b}", "{a!r}", "{b:>5}", "{{", "}}", "{dotted.name}", "{a}{b}"]
    parts = ["SELECT "]
    for _ in range(rng.randrange(1, 5)):
        parts.append(rng.choice(fields + SQL_FRAGS))
        parts.append(rng.choice([", ", " + ", " "]))
    parts.append("1 FROM " + rng.choice(["{tbl}", "t"]) + "\n")
    return "".join(parts)


PY_CONTEXT = {"a": "col_a", "b": 12, "tbl": "my_tbl", "dotted.name": "dn"}

PLACEHOLDER_STYLES = {"colon": ":x", "colon_nospaces": ":x", "colon_optional_quotes": ":x", "numeric_colon": ":1", "pyformat": "%(x)s", "dollar": "$x", "flyway_var": "${x}",
                      "question_mark": "?", "numeric_dollar": "$1", "percent": "%s", "ampersand": "&x", "dollar_surround": "$x$"}


def gen_placeholder(rng, style):
    p = PLACEHOLDER_STYLES[style]
    return "SELECT a, %s FROM t WHERE b = %s AND c IN (%s, %s)%s" % (p, p, p, rng.choice(["1", p]), rng.choice(["\n", ""]))
