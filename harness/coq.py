"""Coq side of the harness: build, audit, evaluate model terms with vm_compute, parse printed terms."""
import fcntl
import os
import re
import shutil
import subprocess
import tempfile
import time

VERIF = "/verif"
COQ = os.path.join(VERIF, "coq")
FORBIDDEN = re.compile(
    r"\b(Admitted|admit|Axiom|Axioms|Parameter|Parameters|Conjecture|Conjectures|Unset\s+Guard|bypass_check|"
    r"Admit\s+Obligations|type-in-type|impredicative-set|Unset\s+Universe\s+Checking|Unset\s+Positivity)\b"
)


class CoqError(Exception):
    def __init__(self, msg, log=""):
        super().__init__(msg)
        self.log = log


def _lock():
    f = open(os.path.join(COQ, ".build.lock"), "w")
    fcntl.flock(f, fcntl.LOCK_EX)
    return f


def write_if_changed(path, content):
    try:
        with open(path) as f:
            if f.read() == content:
                return False
    except FileNotFoundError:
        pass
    os.makedirs(os.path.dirname(path), exist_ok=True)
    tmp = path + ".tmp%d" % os.getpid()
    with open(tmp, "w") as f:
        f.write(content)
    os.replace(tmp, path)
    return True


def build(targets, jobs=8, timeout=1500):
    """Build the given .vo targets (relative to coq/). Returns (ok, log)."""
    lock = _lock()
    try:
        subprocess.run([os.path.join(VERIF, "tools/mkproject.sh")], check=True)
        cmd = ["timeout", str(timeout), "make", "-f", "Makefile.coq", "-j%d" % jobs] + list(targets)
        p = subprocess.run(cmd, cwd=COQ, stdout=subprocess.PIPE, stderr=subprocess.STDOUT, text=True)
        return p.returncode == 0, p.stdout
    finally:
        lock.close()


def failing_file(log):
    m = re.search(r'File "\./([^"]+)", line (\d+)', log)
    return (m.group(1), int(m.group(2))) if m else (None, None)


def audit_forbidden(files):
    """Grep the listed .v files (relative to coq/) for forbidden vernacular. Returns list of hits."""
    hits = []
    for rel in files:
        p = os.path.join(COQ, rel)
        try:
            txt = open(p).read()
        except FileNotFoundError:
            hits.append((rel, 0, "missing file"))
            continue
        # strip comments (non-nested is enough for our sources; nested handled by loop)
        prev = None
        while prev != txt:
            prev = txt
            txt = re.sub(r"\(\*[^*(]*(?:\*(?!\))[^*(]*|\((?!\*)[^*(]*)*\*\)", lambda m: "\n" * m.group(0).count("\n"), txt)
        for i, line in enumerate(txt.split("\n"), 1):
            if FORBIDDEN.search(line):
                hits.append((rel, i, line.strip()))
            if re.match(r"\s*(Variable|Variables|Hypothesis|Hypotheses|Context)\b", line):
                # allowed only inside a Section: crude check = some 'Section' opened before and not yet closed
                before = "\n".join(txt.split("\n")[:i])
                opened = len(re.findall(r"^\s*Section\s+\w+", before, re.M))
                closed = len(re.findall(r"^\s*End\s+\w+", before, re.M))
                mods = len(re.findall(r"^\s*Module\s+(Type\s+)?\w+", before, re.M))
                if opened - max(0, closed - mods) <= 0:
                    hits.append((rel, i, "section-less " + line.strip()))
    return hits


def all_v_files():
    out = []
    for root in ("theories", "generated"):
        for d, _, fs in os.walk(os.path.join(COQ, root)):
            for f in fs:
                if f.endswith(".v"):
                    out.append(os.path.relpath(os.path.join(d, f), COQ))
    return sorted(out)


def scratch_dir():
    base = os.environ.get("TMPDIR") or "/var/tmp"
    return tempfile.mkdtemp(prefix="verif-coq-", dir=base)


def run_v(source, timeout=900, stack_unlimited=True):
    """Compile a scratch .v file against the built project, return stdout."""
    d = scratch_dir()
    try:
        path = os.path.join(d, "Scratch.v")
        with open(path, "w") as f:
            f.write(source)
        cmd = "ulimit -s unlimited 2>/dev/null; timeout %d coqc -q -w none -Q %s/theories SF -Q %s/generated SFGen %s" % (
            timeout, COQ, COQ, path)
        p = subprocess.run(["bash", "-c", cmd], stdout=subprocess.PIPE, stderr=subprocess.PIPE, text=True)
        if p.returncode != 0:
            raise CoqError("coqc failed on scratch file (rc=%d)" % p.returncode, p.stdout + p.stderr)
        return p.stdout
    finally:
        shutil.rmtree(d, ignore_errors=True)


def theorem_names(prop_file):
    txt = open(os.path.join(COQ, prop_file)).read()
    return re.findall(r"^\s*(?:Theorem|Lemma|Corollary)\s+([A-Za-z0-9_']+)", txt, re.M)


def print_assumptions_raw(import_line, names):
    return print_assumptions(None, names, import_line=import_line)


def print_assumptions(module, names, import_line=None):
    """Returns dict name -> list of axiom lines ([] = closed)."""
    src = import_line + "\n" if import_line else "From SF Require Import %s.\n" % module
    for n in names:
        src += 'Print Assumptions %s.\n' % n
    out = run_v(src)
    # split per theorem: each answer is either "Closed under the global context" or "Axioms:\n..."
    res = {}
    chunks = re.split(r"(?m)^(?=Closed under the global context|Axioms:|Fetching opaque)", out)
    chunks = [c for c in chunks if c.strip()]
    i = 0
    for n in names:
        if i >= len(chunks):
            res[n] = ["<no output>"]
            continue
        c = chunks[i]
        i += 1
        if c.startswith("Closed under the global context"):
            res[n] = []
        else:
            body = c.split("\n", 1)[1] if "\n" in c else ""
            ax = [l.split(":")[0].strip() for l in body.split("\n") if l and not l.startswith(" ") and ":" in l]
            res[n] = ax or ["<unparsed>"]
    return res


# ----------------------------------------------------------------------------------------------
# Rendering Python values as Coq literals

def cnat(n):
    assert n >= 0
    return "%d%%nat" % n


def cN(n):
    assert n >= 0
    return "%d%%N" % n


def cZ(n):
    return "%d%%Z" % n if n >= 0 else "(%d)%%Z" % n


def cbool(b):
    return "true" if b else "false"


def clist(items):
    return "[" + "; ".join(items) + "]"


def ctuple(items):
    return "(" + ", ".join(items) + ")"


def ctext(s):
    """A Python str as a `text` (list of code points)."""
    if not s:
        return "(@nil N)"
    return "[" + ";".join(str(ord(c)) for c in s) + "]%N"


def copt(x, f):
    return "None" if x is None else "(Some %s)" % f(x)


def cnats(l):
    if not l:
        return "(@nil nat)"
    return "[" + ";".join(str(x) for x in l) + "]%nat"


# ----------------------------------------------------------------------------------------------
# Parsing printed Coq terms (numbers, lists, tuples, constructor applications)

_TOK = re.compile(r"\s*(?:(\[|\]|\(|\)|;|,)|(-?\d+)|\"((?:[^\"]|\"\")*)\"|([A-Za-z_][A-Za-z0-9_'.]*)|(%[A-Za-z_]+))")


def _tokens(s):
    pos = 0
    out = []
    s = s.strip()
    while pos < len(s):
        m = _TOK.match(s, pos)
        if not m:
            raise ValueError("cannot tokenise Coq output at %r" % s[pos:pos + 40])
        pos = m.end()
        if m.group(5):
            continue  # scope suffix
        if m.group(1):
            out.append(("p", m.group(1)))
        elif m.group(2) is not None:
            out.append(("n", int(m.group(2))))
        elif m.group(3) is not None:
            out.append(("s", m.group(3).replace('""', '"')))
        else:
            out.append(("i", m.group(4)))
    return out


def parse_term(s):
    toks = _tokens(s)
    pos = [0]

    def peek():
        return toks[pos[0]] if pos[0] < len(toks) else ("e", None)

    def nxt():
        t = peek()
        pos[0] += 1
        return t

    def atom():
        t = nxt()
        if t[0] == "n":
            return t[1]
        if t[0] == "s":
            return t[1]
        if t[0] == "i":
            if t[1] == "true":
                return True
            if t[1] == "false":
                return False
            if t[1] == "None":
                return None
            if t[1] == "nil":
                return []
            return (t[1],)
        if t == ("p", "["):
            items = []
            if peek() == ("p", "]"):
                nxt()
                return items
            while True:
                items.append(app())
                t2 = nxt()
                if t2 == ("p", "]"):
                    return items
                if t2 != ("p", ";"):
                    raise ValueError("expected ; or ] got %r" % (t2,))
        if t == ("p", "("):
            items = [app()]
            while True:
                t2 = nxt()
                if t2 == ("p", ")"):
                    break
                if t2 != ("p", ","):
                    raise ValueError("expected , or ) got %r" % (t2,))
                items.append(app())
            return items[0] if len(items) == 1 else tuple(items)
        raise ValueError("unexpected token %r" % (t,))

    def app():
        head = atom()
        if isinstance(head, tuple) and len(head) == 1 and isinstance(head[0], str) and head[0][:1].isalpha():
            args = []
            while peek()[0] in ("n", "s", "i") or peek() in (("p", "["), ("p", "(")):
                args.append(atom())
            if head[0] == "Some" and len(args) == 1:
                return ("Some", args[0])
            return (head[0],) + tuple(args) if args else head
        return head

    r = app()
    if pos[0] != len(toks):
        raise ValueError("trailing tokens in Coq output: %r" % (toks[pos[0]:pos[0] + 5],))
    return r


def eval_terms(imports, terms, defs="", timeout=900):
    """Evaluate each Coq term with vm_compute and return the parsed values (in order)."""
    src = "From SF Require Import Base.Prelude.\n"
    for imp in imports:
        src += "From SF Require Import %s.\n" % imp if not imp.startswith("From ") else imp + "\n"
    src += "Set Printing Width 1000000.\nSet Printing Depth 100000000.\nUnset Printing Notations.\nSet Printing Notations.\n"
    src += "Open Scope nat_scope.\n"
    src += defs + "\n"
    for i, t in enumerate(terms):
        src += 'Definition verif_case_%d := %s.\n' % (i, t)
        src += "Eval vm_compute in verif_case_%d.\n" % i
    out = run_v(src, timeout=timeout)
    parts = re.split(r"(?m)^\s*= ", out)[1:]
    if len(parts) != len(terms):
        raise CoqError("expected %d results, got %d" % (len(terms), len(parts)), out[:2000])
    vals = []
    for p in parts:
        # strip the trailing ": type"
        idx = p.rfind("\n     : ")
        body = p[:idx] if idx >= 0 else p
        vals.append(parse_term(body))
    return vals


def chunked(seq, n):
    for i in range(0, len(seq), n):
        yield seq[i:i + n]


def now():
    return time.time()


def eval_sharded(imports, func, case_literals, shard=400, jobs=12, defs="", timeout=900):
    """Evaluate `func c` for every Coq literal c (a list of strings) with vm_compute, in parallel shards.

    Returns the parsed results in order."""
    from concurrent.futures import ThreadPoolExecutor

    shards = list(chunked(list(case_literals), shard))
    if not shards:
        return []

    def one(sh):
        term = "map (%s) %s" % (func, clist(sh))
        return eval_terms(imports, [term], defs=defs, timeout=timeout)[0]

    with ThreadPoolExecutor(max_workers=jobs) as ex:
        parts = list(ex.map(one, shards))
    out = []
    for sh, p in zip(shards, parts):
        if len(p) != len(sh):
            raise CoqError("shard result length mismatch %d vs %d" % (len(p), len(sh)))
        out.extend(p)
    return out
