"""Translator: every bundled dialect's grammar reference graph -> coq/generated/Gen_dialect_<name>.v

For each dialect (expanded): every library entry `name -> object` becomes a node; its successors are all names the object can ask the
dialect for at parse time: Ref targets (also inside anonymous sub-grammars, `exclude`, `terminators`, `delimiter`), keyword strings
resolved through Ref.keyword, segment classes used directly, and for Bracketed / bracket-aware algorithms the start/end refs of the
dialect's bracket sets. A referenced name with no library entry gets a node id but no entry (dangling). The walk is generic and fails
closed on containers it does not understand."""
import os

from harness import coq

SKIP_ATTRS = {"_cache_key", "parse_mode", "allow_gaps", "optional", "reset_terminators", "max_times", "min_times", "max_times_per_element",
              "bracket_type", "allow_trailing", "min_delimiters", "optional_delimiter", "_simple", "template", "templates", "anti_template",
              "ignore_case", "_template", "_anti_template", "_target_types", "_trim_chars", "casefold", "type", "_config_type", "_config_rules",
              "_instance_types", "trim_start", "trim_chars", "_meta", "raw_class", "equality_kwargs", "supported_parse_modes", "is_optional",
              "preserve_order", "preceding_sequences"}


class Walker:
    def __init__(self, dialect):
        from sqlfluff.core.parser.grammar.base import BaseGrammar, Ref
        from sqlfluff.core.parser.matchable import Matchable
        from sqlfluff.core.parser.parsers import BaseParser
        from sqlfluff.core.parser.segments.base import BaseSegment
        self.d = dialect
        self.BaseGrammar, self.Ref, self.Matchable, self.BaseParser, self.BaseSegment = BaseGrammar, Ref, Matchable, BaseParser, BaseSegment
        self.memo = {}
        self.nodes_visited = 0
        self.bracket_refs = set()
        for label in ("bracket_pairs", "angle_bracket_pairs"):
            for tup in dialect.bracket_sets(label):
                if len(tup) != 4:
                    raise RuntimeError("unexpected bracket tuple %r" % (tup,))
                self.bracket_refs.add(tup[1])
                self.bracket_refs.add(tup[2])

    def refs_of(self, obj):
        """set of names `obj` may resolve through dialect.ref()"""
        key = id(obj)
        if key in self.memo:
            return self.memo[key]
        self.memo[key] = out = set()  # cycle guard (anonymous cycles cannot occur without a Ref, but be safe)
        self.nodes_visited += 1
        if isinstance(obj, type):
            if issubclass(obj, self.BaseSegment):
                mg = getattr(obj, "match_grammar", None)
                if mg is not None:
                    out |= self.refs_of(mg)
                return out
            raise RuntimeError("unexpected class in grammar: %r" % (obj,))
        if isinstance(obj, self.Ref):
            out.add(obj._ref)
        if isinstance(obj, self.BaseParser):
            return out
        if isinstance(obj, self.Matchable):
            d = getattr(obj, "__dict__", {})
            for attr, val in d.items():
                if attr in SKIP_ATTRS or attr == "_ref":
                    continue
                if attr == "bracket_pairs_set":
                    for tup in self.d.bracket_sets(val):
                        out.add(tup[1])
                        out.add(tup[2])
                    continue
                self._walk_value(attr, val, out)
            return out
        raise RuntimeError("unexpected object in grammar: %r" % (obj,))

    def _walk_value(self, attr, val, out):
        if isinstance(val, type):
            out |= self.refs_of(val)
            return
        if val is None or isinstance(val, (bool, int, str, float, frozenset)):
            if isinstance(val, str) and attr not in ("start_bracket", "end_bracket"):
                # a bare string attribute we do not know: fail closed
                raise RuntimeError("unknown string attribute %r=%r" % (attr, val))
            return
        if isinstance(val, (list, tuple, set)):
            for v in val:
                self._walk_value(attr, v, out)
            return
        if isinstance(val, type) or isinstance(val, self.Matchable):
            out |= self.refs_of(val)
            return
        if callable(val):
            return
        raise RuntimeError("unknown container for attribute %r: %r" % (attr, type(val)))


def dump(name):
    from sqlfluff.core.dialects import dialect_selector
    d = dialect_selector(name)
    w = Walker(d)
    lib = d._library
    graph = {}
    for n, obj in lib.items():
        graph[n] = sorted(w.refs_of(obj))
    root_name = None
    root_cls = d.get_root_segment()
    for n, obj in lib.items():
        if obj is root_cls:
            root_name = n
    if root_name is None:
        raise RuntimeError("root segment not found in library of %s" % name)
    # bracket-aware algorithms (next_ex_bracket_match, greedy_match) resolve every bracket ref of the default set from anywhere
    graph[root_name] = sorted(set(graph[root_name]) | w.bracket_refs)
    return d, graph, root_name, w.nodes_visited


def reachable(graph, root):
    seen, order, parent = set(), [], {}
    stack = [root]
    while stack:
        n = stack.pop()
        if n in seen:
            continue
        seen.add(n)
        order.append(n)
        for s in graph.get(n, []):
            if s not in seen:
                parent.setdefault(s, n)
                stack.append(s)
    return order, parent


def path_to(parent, root, n):
    p = [n]
    while p[-1] != root and p[-1] in parent:
        p.append(parent[p[-1]])
    return list(reversed(p))


def generate_one(name):
    d, graph, root, visited = dump(name)
    names = sorted(set(graph) | {s for v in graph.values() for s in v})
    idx = {n: i for i, n in enumerate(names)}
    reach, parent = reachable(graph, root)
    dangling = sorted(n for n in reach if n not in graph)
    # cross-check the translator against the real dialect.ref(): every emitted edge target resolves iff it has an entry
    for n in reach:
        try:
            d.ref(n)
            ok = True
        except (RuntimeError, ValueError):
            ok = False
        if ok != (n in graph):
            raise RuntimeError("translator disagrees with dialect.ref(%r) in %s" % (n, name))
    ident = name.replace("-", "_")
    lines = ["(* GENERATED by harness/gen_dialects.py from dialect %r -- do not edit *)" % name,
             "From Coq Require Import String.",
             "From SF Require Import Base.Prelude Base.Decode Model.DialectGraph Proofs.DialectGraphP Model.LexTable.",
             "Local Open Scope string_scope.", ""]

    def enc_list(l):
        return ",".join(str(x) for x in l)

    # chunked on entry boundaries: a very long string literal overflows coqc's stack
    entries = ["%d;%s" % (idx[n], enc_list(idx[s] for s in graph[n])) for n in sorted(graph, key=lambda x: idx[x])]
    chunks, cur = [], []
    for e in entries:
        if cur and sum(len(x) + 1 for x in cur) + len(e) > 3000:
            chunks.append(cur)
            cur = []
        cur.append(e)
    if cur:
        chunks.append(cur)
    for ci, ch in enumerate(chunks):
        lines.append('Definition g_src_%s_%d : string := "%s".' % (ident, ci, "|".join(ch)))
    lines.append("Definition g_%s : graph := Eval vm_compute in as_graph (%s)." % (
        ident, " ++ ".join("decode g_src_%s_%d" % (ident, ci) for ci in range(len(chunks))) or "[]"))
    lines.append("Definition root_%s : N := %d%%N." % (ident, idx[root]))
    vis = sorted(idx[n] for n in reach)
    vchunks = [vis[i:i + 500] for i in range(0, len(vis), 500)]
    lines.append('Definition visited_%s : list N := Eval vm_compute in (%s).' % (
        ident, " ++ ".join('as_list (decode "%s")' % enc_list(c) for c in vchunks) or "[]"))
    lines.append('Definition dangling_%s : list N := %s.' % (
        ident, "(@nil N)" if not dangling else 'Eval vm_compute in as_list (decode "%s")' % enc_list(sorted(idx[n] for n in dangling))))
    lines.append("(* the decoder saw what the translator wrote: entry and edge counts *)")
    lines.append("Theorem shape_%s : (N.of_nat (length g_%s), N.of_nat (sum_nat (map (fun e => length (snd e)) g_%s)), N.of_nat (length visited_%s)) = (%d, %d, %d)%%N." % (
        ident, ident, ident, ident, len(graph), sum(len(v) for v in graph.values()), len(reach)))
    lines.append("Proof. vm_compute. reflexivity. Qed.")
    lines.append("(* every name reachable from the root is in visited_, and each has a library entry or is listed in dangling_ *)")
    lines.append("Theorem closed_%s : closed_check_fast g_%s root_%s visited_%s dangling_%s = true." % (ident, ident, ident, ident, ident))
    lines.append("Proof. vm_compute. reflexivity. Qed.")
    # lexer matcher table (name, regex/string template) in matching order + the last-resort matcher of PyLexer
    from sqlfluff.core.parser.lexer import PyLexer, RegexLexer, StringLexer
    matchers = d.get_lexer_matchers()
    tbl = []
    for m in matchers:
        if not isinstance(m, StringLexer) or not isinstance(m.template, str):
            raise RuntimeError("unexpected lexer matcher %r in %s" % (m, name))
        tbl.append((m.name, ("R" if isinstance(m, RegexLexer) else "S"), m.template))
    lx = PyLexer(dialect=name)
    if [m.name for m in lx.lexer_matchers] != [m.name for m in matchers]:
        raise RuntimeError("PyLexer does not use the dialect's matcher table in %s" % name)
    last = lx.last_resort_lexer
    if not isinstance(last, RegexLexer):
        raise RuntimeError("last-resort matcher is not a RegexLexer")
    def enc_text(t):
        return ",".join(str(ord(c)) for c in t)

    lines.append('Definition lexers_%s : table := Eval vm_compute in as_pairs (decode "%s").' % (
        ident, "|".join("%s;%s" % (enc_text(n), enc_text(t if k == "R" else "S:" + t)) for (n, k, t) in tbl)))
    lines.append('Definition last_resort_%s : text := Eval vm_compute in as_list (decode "%s").' % (ident, enc_text(last.template)))
    lines.append("Theorem lexer_ok_%s : table_ok lexers_%s last_resort_%s = true." % (ident, ident, ident))
    lines.append("Proof. vm_compute. reflexivity. Qed.")
    lines.append("(* visited: %d library entries, %d reachable names, %d grammar nodes walked, %d edges *)" % (
        len(graph), len(reach), visited, sum(len(v) for v in graph.values())))
    coq.write_if_changed(os.path.join(coq.COQ, "generated", "Gen_dialect_%s.v" % ident), "\n".join(lines) + "\n")
    return {"dialect": name, "lexer_matchers": len(tbl), "last_resort": last.template, "entries": len(graph), "reachable": len(reach), "edges": sum(len(v) for v in graph.values()),
            "grammar_nodes": visited, "dangling": [(n, path_to(parent, root, n)) for n in dangling]}


def conj_term(ts):
    if len(ts) == 1:
        return ts[0]
    return "(conj %s %s)" % (ts[0], conj_term(ts[1:]))


def dialect_names():
    from sqlfluff.core.dialects import dialect_readout
    return sorted(r.label for r in dialect_readout())


def generate(ctx=None):
    out = {}
    failures = {}
    for name in dialect_names():
        try:
            out[name] = generate_one(name)
        except Exception as e:  # a dialect that does not load / translate is reported by the check
            failures[name] = "%s: %s" % (type(e).__name__, e)
    # one file stating the property for all bundled dialects at once (fails to compile when any dialect has a dangling reference)
    idents = [n.replace("-", "_") for n in sorted(out)]
    L = ["(* GENERATED by harness/gen_dialects.py -- do not edit *)",
         "From SF Require Import Base.Prelude Model.DialectGraph Proofs.DialectGraphP Model.LexTable Proofs.LexTableP."]
    L += ["From SFGen Require Import Gen_dialect_%s." % i for i in idents]
    L.append("Definition bundled_dialects : nat := %d." % len(idents))
    any_dangling = any(v["dangling"] for v in out.values())
    # always stated: every reachable reference resolves or is one of the names listed (by id) in dangling_<d>
    L.append("Theorem all_bundled_dialects_closed_up_to_listed :")
    L.append("  " + "\n  /\\ ".join("(forall n, path g_%s root_%s n -> entry g_%s n <> None \\/ In n dangling_%s)" % (i, i, i, i) for i in idents) + ".")
    L.append("Proof. exact %s. Qed." % conj_term(["(closed_fast_up_to_listed _ _ _ _ closed_%s)" % i for i in idents]))
    L.append("Definition listed_dangling_total : nat := %s." % " + ".join("length dangling_%s" % i for i in idents))
    if not any_dangling:
        # the property itself, stated only when it holds (otherwise the harness reports each (dialect, name) pair)
        L.append("Theorem all_bundled_dialects_complete :")
        L.append("  " + "\n  /\\ ".join("(forall n, path g_%s root_%s n -> entry g_%s n <> None)" % (i, i, i) for i in idents) + ".")
        L.append("Proof. exact %s. Qed." % conj_term(["(closed_fast_no_dangling _ _ _ closed_%s)" % i for i in idents]))
    L.append("Theorem all_bundled_lexers_total :")
    L.append("  " + "\n  /\\ ".join("table_ok lexers_%s last_resort_%s = true" % (i, i) for i in idents) + ".")
    L.append("Proof. exact %s. Qed." % conj_term(["lexer_ok_%s" % i for i in idents]))
    coq.write_if_changed(os.path.join(coq.COQ, "generated", "Gen_dialects_all.v"), "\n".join(L) + "\n")
    if ctx is not None:
        ctx.coverage_extra["translator_gen_dialects"] = {k: {kk: vv for kk, vv in v.items() if kk != "dangling"} for k, v in out.items()}
        ctx.dialect_dump = out
        ctx.dialect_failures = failures
        if failures:
            raise RuntimeError("dialects failed to translate: %r" % failures)
    return out, failures


if __name__ == "__main__":
    o, f = generate()
    tot = 0
    for k, v in o.items():
        print(k, v["entries"], v["reachable"], v["grammar_nodes"], len(v["dangling"]), [n for n, _ in v["dangling"]][:8])
        tot += len(v["dangling"])
    print("total dangling", tot, "failures", f)
