"""Worker for C01 (and C07): render with a templater, lex every variant, check the token stream against the property."""
_L = {}


def linter(dialect, templater, style=None):
    key = (dialect, templater, style)
    if key not in _L:
        import logging
        logging.disable(logging.CRITICAL)
        from sqlfluff.core import FluffConfig, Linter
        from harness import corpus
        configs = {"core": {}}
        if templater == "jinja":
            # styles 0/1: the two contexts; 2/3: the same with template block indents switched off
            configs["templater"] = {"jinja": {"context": corpus.JINJA_CONTEXTS[(style or 0) % 2]}}
            if (style or 0) >= 2:
                configs["indentation"] = {"template_blocks_indent": False}
        elif templater == "python":
            configs["templater"] = {"python": {"context": corpus.PY_CONTEXT}}
        elif templater == "placeholder":
            configs["templater"] = {"placeholder": {"param_style": style, "x": "'v'", "1": "'one'"}}
        _L[key] = Linter(config=FluffConfig(configs=configs, overrides={"dialect": dialect, "templater": templater}))
    return _L[key]


def check_tokens(tf, tokens, raw_templater):
    """-> list of (key, what)"""
    probs = []
    src, tpl = tf.source_str, tf.templated_str
    real = [t for t in tokens if not t.is_meta]
    if "".join(t.raw for t in real) != tpl:
        probs.append(("not-lossless", "non-meta tokens do not concatenate to the rendered SQL"))
    pos = 0
    for t in real:
        ts = t.pos_marker.templated_slice
        if ts.start != pos or ts.stop != pos + len(t.raw):
            probs.append(("templated-not-contiguous", "token %r occupies templated %r, expected start %d" % (t.raw[:15], (ts.start, ts.stop), pos)))
            break
        pos = ts.stop
    covered = [False] * len(src)
    prev = None
    sliced = tf.sliced_file
    for t in tokens:
        ss = t.pos_marker.source_slice
        if not (0 <= ss.start <= len(src) and 0 <= ss.stop <= len(src)):
            probs.append(("source-out-of-bounds", "segment %r source slice %r outside [0,%d]" % (t.raw[:15], (ss.start, ss.stop), len(src))))
            continue
        if ss.start > ss.stop:
            probs.append(("source-negative-length", "segment %s %r has source slice (%d,%d)" % (t.get_type(), t.raw[:15], ss.start, ss.stop)))
            continue
        for i in range(ss.start, ss.stop):
            covered[i] = True
        if raw_templater and not t.is_meta and (ss.start, ss.stop) != (t.pos_marker.templated_slice.start, t.pos_marker.templated_slice.stop):
            probs.append(("raw-positions-differ", "untemplated file: token %r source %r != templated %r" % (
                t.raw[:15], (ss.start, ss.stop), (t.pos_marker.templated_slice.start, t.pos_marker.templated_slice.stop))))
        if not t.is_meta:
            if prev is not None and ss.start < prev[0]:
                # going backwards in the source is only legitimate where the templater's own slice map goes backwards (a loop)
                a, b = prev[1], t.pos_marker.templated_slice.start
                back = any(x.source_slice.start > y.source_slice.start for x, y in zip(sliced, sliced[1:])
                           if a <= y.templated_slice.start <= b or a <= x.templated_slice.stop <= b)
                if not back:
                    probs.append(("source-order", "token %r starts at source %d before the previous token's %d with no loop in between" % (t.raw[:15], ss.start, prev[0])))
            prev = (ss.start, t.pos_marker.templated_slice.start)
    missing = [i for i, c in enumerate(covered) if not c]
    if missing:
        probs.append(("source-not-covered", "source characters %r (%r...) are in no token or placeholder" % (missing[:5], src[missing[0]:missing[0] + 12])))
    return probs


def lex_case(dialect, templater, style, label, source):
    out = {"exc": None, "probs": [], "variants": 0, "tokens": 0, "tmp": 0, "lxr_mismatch": None, "loops": False}
    try:
        from sqlfluff.core import Linter
        from sqlfluff.core.parser import Lexer
        lnt = linter(dialect, templater, style)
        rendered = lnt.render_string(source, fname="t.sql", config=lnt.config, encoding="utf-8")
        out["tmp"] = len(rendered.templater_violations)
        for tf in rendered.templated_variants:
            out["variants"] += 1
            out["loops"] = out["loops"] or any(x.source_slice.start > y.source_slice.start for x, y in zip(tf.sliced_file, tf.sliced_file[1:]))
            tokens, errs = Lexer(config=lnt.config).lex(tf)
            out["tokens"] += len(tokens)
            n_unlex = sum(1 for s in tokens if s.is_type("unlexable"))
            if n_unlex != len(errs):
                out["probs"].append(("lxr-count", "%d unlexable tokens but %d LXR errors" % (n_unlex, len(errs))))
            out["probs"] += check_tokens(tf, tokens, templater == "raw")
            # the linter's own entry (balance filter) must keep the same non-meta tokens
            toks2, _ = Linter._lex_templated_file(tf, lnt.config)
            if [t.raw for t in toks2 if not t.is_meta] != [t.raw for t in tokens if not t.is_meta]:
                out["probs"].append(("filter-drops-tokens", "_lex_templated_file changed the non-meta token sequence"))
    except BaseException as e:  # noqa
        from harness.crashcheck import _exc_info
        out["exc"] = _exc_info(e)
    return out


def check_tf(tf):
    """The C07 property on one TemplatedFile -> list of (key, what)."""
    probs = []
    src, tpl = tf.source_str, tf.templated_str
    pos = 0
    for rs in tf.raw_sliced:
        if rs.source_idx != pos:
            probs.append(("raw-not-tiling", "raw slice %r starts at %d, expected %d" % (rs.raw[:15], rs.source_idx, pos)))
            break
        if src[pos:pos + len(rs.raw)] != rs.raw:
            probs.append(("raw-text", "raw slice text %r is not the source text at %d" % (rs.raw[:15], pos)))
            break
        pos += len(rs.raw)
    else:
        if pos != len(src):
            probs.append(("raw-not-tiling", "raw slices end at %d, source length %d" % (pos, len(src))))
    pos = 0
    for fs in tf.sliced_file:
        ts, ss = fs.templated_slice, fs.source_slice
        if ts.start != pos or ts.stop < ts.start:
            probs.append(("templated-not-tiling", "templated slice %r does not follow %d" % ((ts.start, ts.stop), pos)))
            break
        pos = ts.stop
        if not (0 <= ss.start <= ss.stop <= len(src)):
            probs.append(("source-out-of-file", "source slice %r outside the file (length %d)" % ((ss.start, ss.stop), len(src))))
        if fs.slice_type == "literal" and ts.stop > ts.start:
            if src[ss.start:ss.stop] != tpl[ts.start:ts.stop]:
                probs.append(("literal-text-differs", "literal slice maps source %r to rendered %r" % (src[ss.start:ss.stop][:25], tpl[ts.start:ts.stop][:25])))
    else:
        if tf.sliced_file and pos != len(tpl):
            probs.append(("templated-not-tiling", "templated slices end at %d, rendered length %d" % (pos, len(tpl))))
    return probs


def tf_case(dialect, templater, style, label, source):
    out = {"exc": None, "variants": 0, "probs": [], "tmp": 0, "loops": False, "nslices": 0}
    try:
        lnt = linter(dialect, templater, style)
        rendered = lnt.render_string(source, fname="t.sql", config=lnt.config, encoding="utf-8")
        out["tmp"] = len(rendered.templater_violations)
        for vi, tf in enumerate(rendered.templated_variants):
            out["variants"] += 1
            out["nslices"] += len(tf.sliced_file)
            out["loops"] = out["loops"] or any(x.source_slice.start > y.source_slice.start for x, y in zip(tf.sliced_file, tf.sliced_file[1:]))
            for k, w in check_tf(tf):
                out["probs"].append((k, w, vi))
    except BaseException as e:  # noqa
        from harness.crashcheck import _exc_info
        out["exc"] = _exc_info(e)
    return out
