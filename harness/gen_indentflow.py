"""Translator: every bundled dialect's grammar -> indent-flow abstraction (coq/generated/Gen_indent_<d>.v) + fixpoint tables.

Each library entry that is a grammar or a segment class becomes a named definition; anonymous sub-grammars are inlined.  The tables
(possible net indents of a complete match of every named element, per valuation of the indentation-config keys the dialect's
Conditional metas mention) are the least fixpoint computed here; Coq only CHECKS them (Model/IndentFlow.check, sound by
Proofs/IndentFlowP.check_sound), so a wrong table cannot make a false theorem."""
import itertools
import os

from harness import coq


class Conv:
    def __init__(self, dialect):
        from sqlfluff.core.parser.grammar import anyof, base, conditional, delimited, sequence
        from sqlfluff.core.parser.matchable import Matchable
        from sqlfluff.core.parser.parsers import BaseParser
        from sqlfluff.core.parser.segments.base import BaseSegment
        from sqlfluff.core.parser.segments.meta import MetaSegment
        self.d = dialect
        self.m = dict(anyof=anyof, base=base, conditional=conditional, delimited=delimited, sequence=sequence)
        self.Matchable, self.BaseParser, self.BaseSegment, self.MetaSegment = Matchable, BaseParser, BaseSegment, MetaSegment
        self.lib = dialect._library
        self.name_of = {}
        for n, obj in self.lib.items():
            self.name_of.setdefault(id(obj), n)
        self.ids = {}
        self.keys = {}
        self.nodes = 0
        self.memo = {}

    def nid(self, name):
        return self.ids.setdefault(name, len(self.ids))

    def ref(self, name):
        return ("ref", self.nid(name))

    def conv(self, obj, top=False):
        """-> python term: ('leaf',) ('meta',v) ('cond',[(k,b)],v) ('ref',id) ('seq',[..]) ('alt',[..]) ('star',[..])"""
        self.nodes += 1
        if not top and id(obj) in self.name_of and not (isinstance(obj, type) and issubclass(obj, self.MetaSegment)):
            return self.ref(self.name_of[id(obj)])
        if isinstance(obj, type):
            if issubclass(obj, self.MetaSegment):
                return ("meta", int(getattr(obj, "indent_val", 0)))
            if issubclass(obj, self.BaseSegment):
                mg = getattr(obj, "match_grammar", None)
                return self.conv(mg) if mg is not None else ("leaf",)
            raise RuntimeError("unexpected class %r" % (obj,))
        A, B, C, D, S = self.m["anyof"], self.m["base"], self.m["conditional"], self.m["delimited"], self.m["sequence"]
        if isinstance(obj, B.Ref):
            return self.ref(obj._ref)
        if isinstance(obj, C.Conditional):
            conds = []
            for k, v in sorted(obj._config_rules.items()):
                conds.append((self.keys.setdefault(k, len(self.keys)), bool(v)))
            return ("cond", conds, int(obj._meta.indent_val))
        if isinstance(obj, self.BaseParser) or isinstance(obj, (B.Anything, B.Nothing)):
            return ("leaf",)
        if isinstance(obj, S.Bracketed):
            return ("seq", [("meta", 1)] + [self.elem(e) for e in obj._elements] + [("meta", -1)])
        if isinstance(obj, S.Sequence):
            return ("seq", [self.elem(e) for e in obj._elements])
        if isinstance(obj, D.Delimited):
            return ("star", [self.conv(e) for e in obj._elements] + [self.conv(obj.delimiter)])
        if isinstance(obj, A.AnySetOf):
            return ("star", [self.conv(e) for e in obj._elements])
        if isinstance(obj, A.OneOf):
            return ("alt", [self.conv(e) for e in obj._elements])
        if isinstance(obj, A.AnyNumberOf):
            return ("star", [self.conv(e) for e in obj._elements])
        if isinstance(obj, self.Matchable):
            if type(obj).__name__ in ("NonCodeMatcher", "PrecededByMatcher"):
                return ("leaf",)
            raise RuntimeError("unknown grammar class %s" % type(obj).__name__)
        raise RuntimeError("unexpected object %r" % (obj,))

    def elem(self, e):
        t = self.conv(e)
        opt = False
        try:
            opt = bool(e.is_optional()) if not isinstance(e, type) else bool(getattr(e, "is_optional", lambda: False)())
        except Exception:  # noqa
            opt = False
        return ("alt", [t, ("seq", [])]) if opt else t


def nets(term, tbl, on):
    k = term[0]
    if k == "leaf":
        return {0}
    if k == "meta":
        return {term[1]}
    if k == "cond":
        return {term[2] if all((key in on) == val for key, val in term[1]) else 0}
    if k == "ref":
        return tbl.get(term[1], {0})
    if k == "seq":
        acc = {0}
        for x in term[1]:
            s = nets(x, tbl, on)
            if s is None:
                return None
            acc = {a + b for a in acc for b in s}
            if len(acc) > 9:
                return None
        return acc
    if k == "alt":
        acc = set()
        for x in term[1]:
            s = nets(x, tbl, on)
            if s is None:
                return None
            acc |= s
        return acc
    if k == "star":
        for x in term[1]:
            s = nets(x, tbl, on)
            if s is None or any(v != 0 for v in s):
                return None
        return {0}
    raise ValueError(k)


def term_coq(t):
    k = t[0]
    if k == "leaf":
        return "GLeaf"
    if k == "meta":
        return "(GMeta %s)" % coq.cZ(t[1])
    if k == "cond":
        return "(GCond [%s] %s)" % ("; ".join("(%d%%N, %s)" % (a, coq.cbool(b)) for a, b in t[1]), coq.cZ(t[2]))
    if k == "ref":
        return "(GRef %d%%N)" % t[1]
    name = {"seq": "GSeq", "alt": "GAlt", "star": "GStar"}[k]
    return "(%s [%s])" % (name, "; ".join(term_coq(x) for x in t[1])) if t[1] else "(%s [])" % name


def has_meta(t):
    k = t[0]
    if k in ("meta", "cond"):
        return True
    if k in ("seq", "alt", "star"):
        return any(has_meta(x) for x in t[1])
    return False


def analyse(name):
    from sqlfluff.core.dialects import dialect_selector
    d = dialect_selector(name)
    c = Conv(d)
    root_cls = d.get_root_segment()
    root_name = next(n for n, o in d._library.items() if o is root_cls)
    defs = {}
    for n, obj in d._library.items():
        if isinstance(obj, type) and issubclass(obj, c.MetaSegment):
            continue
        if isinstance(obj, c.BaseParser):
            continue
        if isinstance(obj, type) or isinstance(obj, c.Matchable):
            defs[c.nid(n)] = (n, c.conv(obj, top=True))
    # names referenced but not defined (parsers, keywords, dangling): leaves -> default {0}
    keys = sorted(c.keys.values())
    vals = [frozenset(s) for r in range(len(keys) + 1) for s in itertools.combinations(keys, r)] if len(keys) <= 7 else \
        [frozenset()] + [frozenset([k]) for k in keys] + [frozenset(keys)]
    tables = {}
    culprits = {}
    for on in vals:
        tbl = {i: set() for i in defs}      # least fixpoint from the empty sets (names outside `defs` -- parsers, keywords -- are {0})
        unbounded = set()
        for _round in range(60):
            changed = False
            for i, (n, term) in defs.items():
                s = nets(term, tbl, on)
                if s is None:
                    if i not in unbounded:
                        unbounded.add(i)
                        changed = True
                    continue
                cur = tbl[i]
                new = cur | s
                if new != cur:
                    tbl[i] = new
                    changed = True
            if not changed:
                break
        tables[on] = ({i: s for i, s in tbl.items() if s != {0}}, unbounded)
        bad = {defs[i][0]: sorted(s) for i, s in tbl.items() if s != {0} and i in defs}
        if bad or unbounded:
            culprits[on] = (bad, sorted(defs[i][0] for i in unbounded))
    root_id = c.nid(root_name)
    return dict(dialect=name, defs=defs, keys=dict(c.keys), vals=vals, tables=tables, root=root_id, root_name=root_name, nodes=c.nodes, culprits=culprits)


def generate_one(name):
    a = analyse(name)
    ident = name.replace("-", "_")
    L = ["(* GENERATED by harness/gen_indentflow.py from dialect %r -- do not edit *)" % name,
         "From SF Require Import Base.Prelude Model.IndentFlow Proofs.IndentFlowP.", ""]
    # only definitions that can contribute metas need a body; the rest are {0} by default (no table entry, no check needed)
    live = {i: (n, t) for i, (n, t) in a["defs"].items() if has_meta(t) or any(i in tb for tb, _u in a["tables"].values())}
    # definitions referencing non-{0} names must be checked too
    nonzero = set(i for tb, _u in a["tables"].values() for i in tb)

    def refs_nonzero(t):
        k = t[0]
        if k == "ref":
            return t[1] in nonzero
        if k in ("seq", "alt", "star"):
            return any(refs_nonzero(x) for x in t[1])
        return False
    env = {i: nt for i, nt in a["defs"].items() if i in live or refs_nonzero(nt[1]) or i == a["root"]}
    L.append("Definition ienv_%s : list (N * g) := [" % ident)
    L.append(";\n".join("  (%d%%N, %s)" % (i, term_coq(t)) for i, (n, t) in sorted(env.items())))
    L.append("].")
    L.append("Definition iroot_%s : N := %d%%N." % (ident, a["root"]))
    tabs = []
    for on in a["vals"]:
        tb, unb = a["tables"][on]
        tabs.append("([%s], [%s])" % ("; ".join("%d%%N" % k for k in sorted(on)),
                                      "; ".join("(%d%%N, [%s])" % (i, "; ".join(coq.cZ(v) for v in sorted(s))) for i, s in sorted(tb.items()))))
    L.append("Definition itables_%s : list (list N * table) := [%s]." % (ident, ";\n  ".join(tabs)))
    L.append("(* every definition omitted from ienv_ contains no Indent/Dedent/Conditional and refers only to balanced names: its net is {0} *)")
    ok = all((not unb) and a["tables"][on][0].get(a["root"], {0}) == {0} and all(nets(t, {**{i: set() for i in a["defs"]}, **{i: {0} for i in a["defs"] if i not in a["tables"][on][0]}, **a["tables"][on][0]}, on) is not None for _n, t in env.values())
             for on, (tb, unb) in a["tables"].items())
    if ok:
        L.append("Theorem indent_balanced_%s : forallb (fun vt => check ienv_%s (snd vt) (val_of (fst vt)) iroot_%s) itables_%s = true." % (ident, ident, ident, ident))
        L.append("Proof. vm_compute. reflexivity. Qed.")
    else:
        L.append("(* NOT BALANCED: the fixpoint has an unbounded or non-zero entry that reaches the root; no theorem is stated -- the check reports the culprits *)")
        L.append("Definition indent_unbalanced_%s : bool := true." % ident)
    L.append("(* %d definitions (%d with indent metas), %d grammar nodes, config keys %r, %d valuations *)" % (
        len(a["defs"]), len(env), a["nodes"], sorted(a["keys"]), len(a["vals"])))
    coq.write_if_changed(os.path.join(coq.COQ, "generated", "Gen_indent_%s.v" % ident), "\n".join(L) + "\n")
    root_sets = {tuple(sorted(on)): (sorted(a["tables"][on][0].get(a["root"], {0})), a["root"] in a["tables"][on][1]) for on in a["vals"]}
    return {"dialect": name, "balanced": ok, "definitions": len(a["defs"]), "with_metas": len(env), "grammar_nodes": a["nodes"], "keys": sorted(a["keys"]), "valuations": len(a["vals"]),
            "root_sets": root_sets, "culprits": {",".join(str(k) for k in sorted(on)): v for on, v in a["culprits"].items()}}


def generate(ctx=None):
    from harness.gen_dialects import conj_term, dialect_names
    out, failures = {}, {}
    for name in dialect_names():
        try:
            out[name] = generate_one(name)
        except Exception as e:  # noqa
            import traceback
            failures[name] = "%s: %s\n%s" % (type(e).__name__, e, traceback.format_exc()[-600:])
    all_idents = [n.replace("-", "_") for n in sorted(out)]
    idents = [n.replace("-", "_") for n in sorted(out) if out[n]["balanced"]]
    L = ["(* GENERATED by harness/gen_indentflow.py -- do not edit *)", "From SF Require Import Base.Prelude Model.IndentFlow Proofs.IndentFlowP.",
         "(* dialects without a balance theorem (reported by the check): %s *)" % ", ".join(n for n in sorted(out) if not out[n]["balanced"])]
    L += ["From SFGen Require Import Gen_indent_%s." % i for i in idents]
    L.append("Definition indent_balanced_dialects : nat := %d." % len(idents))
    L.append("Theorem bundled_dialects_indent_balanced :")
    L.append("  " + "\n  /\\ ".join("forallb (fun vt => check ienv_%s (snd vt) (val_of (fst vt)) iroot_%s) itables_%s = true" % (i, i, i) for i in idents) + ".")
    L.append("Proof. exact %s. Qed." % conj_term(["indent_balanced_%s" % i for i in idents]))
    coq.write_if_changed(os.path.join(coq.COQ, "generated", "Gen_indent_all.v"), "\n".join(L) + "\n")
    if ctx is not None:
        ctx.indent_dump, ctx.indent_failures = out, failures
        ctx.coverage_extra["translator_gen_indentflow"] = {k: {kk: vv for kk, vv in v.items() if kk not in ("culprits", "root_sets")} for k, v in out.items()}
        if failures:
            raise RuntimeError("dialects failed to translate: %r" % failures)
    return out, failures


if __name__ == "__main__":
    o, f = generate()
    for k, v in o.items():
        bad = {kk: vv for kk, vv in v["root_sets"].items() if vv != ([0], False)}
        print(k, v["definitions"], v["with_metas"], v["grammar_nodes"], v["keys"], v["valuations"], "ROOT-UNBALANCED" if bad else "ok", list(v["culprits"].items())[:1] if v["culprits"] else "")
    print("failures", f)
