"""Worker for the fix-pipeline monitors (C10-C14, C16, C17, C23): run the real linter in fix mode on one source and report what a
property oracle needs.  One call = one `Linter.lint_string(fix=True)` (+ optional second run / re-parse / re-lex)."""
_L = {}


def linter(dialect, templater, style, rules, extra=()):
    key = (dialect, templater, style, rules, tuple(extra))
    if key not in _L:
        import logging
        logging.disable(logging.CRITICAL)
        from sqlfluff.core import FluffConfig, Linter
        from harness import corpus
        configs = {"core": {}}
        if templater == "jinja":
            configs["templater"] = {"jinja": {"context": corpus.JINJA_CONTEXTS[style or 0]}}
        elif templater == "python":
            configs["templater"] = {"python": {"context": corpus.PY_CONTEXT}}
        elif templater == "placeholder":
            configs["templater"] = {"placeholder": {"param_style": style, "x": "'v'", "1": "'one'"}}
        over = {"dialect": dialect, "templater": templater}
        if rules:
            over["rules"] = rules
        for k, v in extra:
            if isinstance(k, tuple):
                d = configs
                for part in k[:-1]:
                    d = d.setdefault(part, {})
                d[k[-1]] = v
            else:
                over[k] = v
        _L[key] = Linter(config=FluffConfig(configs=configs, overrides=over))
    return _L[key]


def _leaves(tree):
    return [(s.raw, s.get_type(), s.is_code, s.is_meta, s.is_comment, s.is_whitespace or s.is_type("newline")) for s in tree.raw_segments]


def template_parts(tf):
    """Ordered texts of the non-literal raw slices of the source (tags, expressions, comments, placeholder parameters)."""
    return [(rs.slice_type, rs.raw) for rs in tf.raw_sliced if rs.slice_type != "literal"]


def raw_slices_of(lnt, source, fname="t.sql"):
    r = lnt.render_string(source, fname=fname, config=lnt.config, encoding="utf-8")
    if not r.templated_variants:
        return None
    return template_parts(r.templated_variants[0])


def fix_case(dialect, templater, style, label, source, rules, extra, want):
    """want: set of strings among {"second", "reparse", "relex", "patches", "parts", "positions"}"""
    from sqlfluff.core import Linter
    out = {"exc": None, "codes0": [], "clean": False, "fixed": None, "changed": False, "unexpected": [], "n_fixable": 0}
    try:
        lnt = linter(dialect, templater, style, rules, extra)
        events = None
        if "events" in want:
            import sqlfluff.core.linter.linter as lmod
            orig_apply = lmod.apply_fixes
            events = []

            def spy(tree, dialect_obj, code, anchor_info, **kw):
                res = orig_apply(tree, dialect_obj, code, anchor_info, **kw)
                fx = repr(sorted((k, [repr(f) for f in info.fixes]) for k, info in anchor_info.items()))
                events.append((code, (tree.raw, repr(tuple(tree.source_fixes))), fx, (res[0].raw, repr(tuple(res[0].source_fixes))), bool(res[3])))
                return res
            lmod.apply_fixes = spy
        try:
            lf = lnt.lint_string(source, fname="t.sql", fix=True)
        finally:
            if events is not None:
                lmod.apply_fixes = orig_apply
        if events is not None:
            out["events"] = events
            out["final_tree"] = None if lf.tree is None else (lf.tree.raw, repr(tuple(lf.tree.source_fixes)))
        vs = lf.get_violations(filter_ignore=False, filter_warning=False)
        out["codes0"] = [v.rule_code() for v in vs]
        out["unexpected"] = [v.rule_code() for v in vs if v.desc().startswith("Unexpected exception")]
        out["clean"] = not any(c in ("TMP", "PRS", "LXR") for c in out["codes0"])
        out["n_fixable"] = sum(1 for v in vs if getattr(v, "fixes", None))
        if lf.tree is None or lf.templated_file is None:
            return out
        tf = lf.templated_file
        src = tf.source_str
        out["src"] = src
        fixed, ok = lf.fix_string()
        out["fixed"], out["fix_ok"] = fixed, ok
        out["changed"] = fixed != src
        out["templated"] = templater != "raw" and len(tf.sliced_file) > 1
        if "patches" in want:
            patches = lf.source_patches
            out["patches"] = None if patches is None else [(p.source_slice.start, p.source_slice.stop, p.fixed_raw, p.patch_category) for p in patches]
            out["nonliteral"] = [(rs.slice_type, rs.source_idx, rs.source_idx + len(rs.raw)) for rs in tf.raw_sliced if rs.slice_type != "literal"]
        if "parts" in want:
            out["parts0"] = template_parts(tf)
            out["parts1"] = raw_slices_of(lnt, fixed) if out["changed"] else out["parts0"]
        if "leaves" in want:
            out["leaves"] = _leaves(lf.tree)
            # the original token stream, for whitespace-only / case-only comparisons
            p0 = lnt.parse_string(source, fname="t.sql")
            out["leaves0"] = _leaves(p0.tree) if p0.tree is not None else None
        if "fixedleaves" in want:
            # the leaves of a fresh parse of the fixed TEXT (what the next reader of the file sees)
            pf = lnt.parse_string(fixed, fname="t.sql") if out["changed"] else None
            out["leaves_fixed"] = (_leaves(pf.tree) if pf.tree is not None else None) if pf is not None else out.get("leaves")
        if "relex" in want and templater == "raw":
            from sqlfluff.core.parser import Lexer
            from sqlfluff.core.templaters.base import TemplatedFile
            toks, _ = Lexer(config=lnt.config).lex(TemplatedFile(source_str=fixed, fname="t.sql"))
            out["relex"] = [(t.raw, t.get_type()) for t in toks if not t.is_meta]
            toks0, _ = Lexer(config=lnt.config).lex(TemplatedFile(source_str=src, fname="t.sql"))
            out["orig_lex"] = sorted(set((t.raw, t.get_type()) for t in toks0 if not t.is_meta))
            out["tree_tokens"] = [(s.raw, s.get_type()) for s in lf.tree.raw_segments if not s.is_meta]
            # lexer type of each fixed-tree leaf when lexed alone (parser-assigned types differ from lexer types by design)
            alone = []
            lx = Lexer(config=lnt.config)
            cache = {}
            for raw, _t in out["tree_tokens"]:
                if raw not in cache:
                    tt, _ = lx.lex(TemplatedFile(source_str=raw, fname="t.sql"))
                    tt = [t for t in tt if not t.is_meta]
                    cache[raw] = tt[0].get_type() if len(tt) == 1 else "<%d tokens>" % len(tt)
                alone.append(cache[raw])
            out["alone_types"] = alone
        if "reparse" in want:
            p = lnt.parse_string(fixed, fname="t.sql")
            out["reparse_codes"] = [v.rule_code() for v in p.violations]
        if "second" in want:
            lf2 = lnt.lint_string(fixed, fname="t.sql", fix=True)
            if lf2.tree is not None and lf2.templated_file is not None:
                out["fixed2"] = lf2.fix_string()[0]
            else:
                out["fixed2"] = None
            out["codes2"] = [v.rule_code() for v in lf2.get_violations(filter_ignore=False, filter_warning=False)]
    except BaseException as e:  # noqa
        from harness.crashcheck import _exc_info
        out["exc"] = _exc_info(e)
    return out
