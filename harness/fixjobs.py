"""Job lists shared by the fix monitors C12, C13, C14, C17."""
from harness import corpus

HOSTILE = [
    ("ansi", "signs", "SELECT a - -5, b - - 3, ~ ~5, c + +1, - - a FROM t WHERE x LIKE - -5;\n"),
    ("ansi", "keywords-glue", "SELECT a FROM t WHERE a IN(1)AND b=2 OR NOT(c)\n"),
    ("ansi", "comment-marker", "SELECT 1 - -1 -- c\n, 2 /-/ 3 FROM t\n"),
    ("ansi", "dots", "SELECT t . a, s. b, u .c FROM t\n"),
    ("ansi", "casts", "SELECT a :: int, b:: text , c ::numeric FROM t\n"),
    ("postgres", "operators", "SELECT a -> 'b', c ->> 'd', e #> '{f}', g @> h, i < - 1, j <- 2 FROM t\n"),
    ("tsql", "brackets", "SELECT [a] , [b c] FROM [t] WHERE [a] = - - 1\n"),
    ("bigquery", "backticks", "SELECT `a` ,`b`.`c` FROM `p.d.t` WHERE x = - -1\n"),
    ("mysql", "hash-comment", "SELECT 1 # c\n, 2 - -3 FROM t\n"),
    ("snowflake", "semi", "SELECT $1, $2:a::int , t.$3 FROM @stage ( FILE_FORMAT => 'f' ) t\n"),
    ("ansi", "long-line", "SELECT " + ", ".join("column_number_%d + another_column_%d AS alias_%d" % (i, i, i) for i in range(8)) + " FROM t\n"),
    ("ansi", "trailing-comments", "SELECT a, -- c1\n  b -- c2\n  , c /* c3 */ FROM t -- c4\n"),
    ("ansi", "leading-commas", "SELECT a\n  , b\n  , c\nFROM t\nWHERE a = 1\n  AND b = 2\n"),
    ("ansi", "case", "SELECT CASE WHEN a THEN CASE WHEN b THEN 1 ELSE 2 END ELSE 3 END AS x FROM t\n"),
    ("ansi", "cte", "WITH a AS (SELECT 1 AS x), b AS (SELECT x FROM a) SELECT a.x, b.x FROM a JOIN b ON a.x = b.x\n"),
    ("ansi", "union", "SELECT 1 UNION SELECT 2 UNION ALL SELECT 3 ORDER BY 1\n"),
    # constructs where whitespace or a newline is significant for the lexer / parser
    ("flink", "set-hyphen", "SET execution.runtime-mode = streaming;\n"),
    ("hive", "set-hyphen", "SET hive.exec.dynamic-partition.mode=nonstrict;\n"),
    ("databricks", "named-param", "SELECT * FROM t WHERE id=:param_id AND b=:other\n"),
    ("ansi", "comment-before-bracket", "SELECT COALESCE(my_func -- note\n(1), 2) FROM t\n"),
    ("ansi", "comment-before-cast", "SELECT CAST -- c\n(a AS INT), b FROM t\n"),
    ("bigquery", "comment-before-index", "SELECT arr -- c\n[0], x FROM t\n"),
    ("ansi", "comment-inside-expr", "SELECT a + -- plus\nb, c FROM t\n"),
    ("postgres", "array-slice", "SELECT a[1:2], b [ 1 ] FROM t\n"),
    ("snowflake", "colon-path", "SELECT v:a.b::string , v : c FROM t\n"),
    ("ansi", "comment-then-bracket-top", "SELECT foo -- which function\n(1) FROM t\n"),
    ("postgres", "comment-then-index", "SELECT arr -- c\n[1] FROM t\n"),
    ("postgres", "comment-then-cast", "SELECT a -- c\n::int FROM t\n"),
    ("mysql", "hash-comment-then-bracket", "SELECT foo # c\n(1) FROM t\n"),
    ("postgres", "cast-after-minus", "SELECT a::int, 2 -CAST(-1 AS int) AS x, 3 -CAST(+2 AS int) AS y FROM t\n"),
    ("tsql", "convert-after-minus", "SELECT 2 -CONVERT(int, -1) AS x, CAST(1 AS int) FROM t\n"),
    ("snowflake", "cast-signed", "SELECT b::int, 5 -CAST(-3 AS int) FROM t\n"),
    ("ansi", "distinct-comment", "SELECT DISTINCT -- c\n a, b FROM t\n"),
    ("ansi", "operator-comment", "SELECT a-- c\n- b, c FROM t\n"),
    ("ansi", "double-sign-first", "SELECT - -1 FROM t\n"),
    ("ansi", "comment-before-args", "SELECT coalesce -- c\n    (a, b) FROM t\n"),
    ("tsql", "comment-before-size", "CREATE TABLE t (a VARCHAR -- c\n    (10))\n"),
    ("ansi", "cte-then-comment", "WITH a AS (SELECT 1), b AS (SELECT 2)\n-- final query\nSELECT * FROM b\n"),
    ("ansi", "cte-comment-between", "WITH a AS (SELECT 1) -- first\n, b AS (SELECT 2) /* second */\nSELECT * FROM b\n"),
    ("ansi", "distinct-comment-single", "SELECT DISTINCT -- c\n    a\nFROM t\n"),
    ("ansi", "operator-comments", "SELECT a -- c0\n    + -- c\n    b\nFROM t\n"),
    ("ansi", "from-comment", "SELECT a\nFROM -- c\n    tbl\n"),
    ("ansi", "multiline-literal", "WITH cte AS (SELECT 1 AS a)\nSELECT\n    'multi\nline', a\nFROM cte\n"),
    ("sqlite", "exists", "SELECT a FROM t WHERE EXISTS(SELECT 1 FROM u WHERE u.a = t.a) AND a<>1 AND b!=2\n"),
]


def comment_jobs(ctx, ruleset, want, extras, n_quick=40, n_thorough=400):
    """Fixture statements with one comment injected at a token boundary (inline comments end the line: what follows must stay code)."""
    import re
    rng = ctx.rng
    out = []
    files = corpus.sample_fixtures(rng, 2 if ctx.tier == "quick" else 16, 500 if ctx.tier == "quick" else 1200)
    rng.shuffle(files)
    for k, (d, name, sql) in enumerate(files[:n_quick if ctx.tier == "quick" else n_thorough]):
        spots = [m.start() for m in re.finditer(r"(?<=[\w)\]])[ \n]+(?=[\w(\[*])|(?<=[\w)])(?=[(\[])", sql)]
        if not spots:
            continue
        i = rng.choice(spots)
        c = rng.choice([" -- c\n", " -- c\n    ", " /* c */ ", "\n-- c\n", " -- c1\n -- c2\n"])
        out.append((d, "raw", None, "comment@%d:%s" % (i, name), sql[:i] + c + sql[i:].lstrip(" "), ruleset, extras[k % len(extras)], want))
    return out


def boundary_jobs(ctx, rulesets, want):
    """Statements with one line whose length is within a few characters of max_line_length (80) and which a non-layout fix lengthens or
    shortens (implicit alias -> AS, keyword/function case, quoted-literal style, != / <>): line-length measurement during the fix run must agree
    with what a fresh run measures."""
    out = []
    shapes = [
        ("implicit-alias", "    %s + another_column_name result_alias"),
        ("implicit-table-alias", None),
        ("not-equal", "    CASE WHEN %s <> 0 THEN 1 ELSE 0 END AS flag_value"),
        ("lower-func", "    coalesce(%s, 0) AS coalesced_value"),
        ("count-1", "    count(1) + %s AS counted_value"),
    ]
    k = 0
    for name, tmpl in shapes:
        for n in range(75, 84):
            if tmpl is None:
                pad = n - len("FROM  table_alias") 
                line = "FROM %s table_alias" % ("s" * max(3, pad))
                sql = "SELECT\n    first_column,\n    second_column\n%s\n" % line
            else:
                base = tmpl % "X"
                ident = "c" * max(3, n - len(base) + 1)
                line = tmpl % ident
                sql = "SELECT\n    first_column,\n%s\nFROM some_table\n" % line
            for r in rulesets:
                out.append(("ansi", "raw", None, "boundary:%s:%d" % (name, len(line)), sql, r, (), want))
                k += 1
    return out


def jobs(ctx, rulesets, want, per_quick=2, per_thorough=12, muts_quick=1, muts_thorough=3, max_quick=700, max_thorough=2500, extras=((),)):
    rng = ctx.rng
    per = per_quick if ctx.tier == "quick" else per_thorough
    muts = muts_quick if ctx.tier == "quick" else muts_thorough
    out = []
    k = 0
    for d, label, sql in corpus.corpus(rng, per, muts, max_chars=max_quick if ctx.tier == "quick" else max_thorough):
        out.append((d, "raw", None, label, sql, rulesets[k % len(rulesets)], extras[k % len(extras)], want))
        k += 1
    for d, label, sql in HOSTILE:
        for r in rulesets:
            out.append((d, "raw", None, "hostile:" + label, sql, r, extras[k % len(extras)], want))
            k += 1
    return out
