"""Subprocess driver: Linter.lint_paths on given paths, prints one JSON line with what the harness compares."""
import json
import sys


def main():
    spec = json.loads(sys.argv[1])
    from sqlfluff.core import FluffConfig, Linter
    cfg = FluffConfig.from_root(overrides=spec.get("overrides", {}))
    lnt = Linter(config=cfg)
    res = lnt.lint_paths(tuple(spec["paths"]), fix=spec.get("fix", False), apply_fixes=spec.get("fix", False),
                         processes=spec.get("processes", 1), retain_files=False)
    recs = res.as_records()
    out = {
        "files_skipped": res.files_skipped,
        "records": [[r["filepath"], sorted([v["code"], v["start_line_no"], v["start_line_pos"], bool(v.get("fixes")), bool(v["warning"])] for v in r["violations"])] for r in recs],
        "stats": {k: v for k, v in res.stats(1, 0).items() if k in ("files", "clean", "unclean", "violations", "exit code")},
        "unfixable": sum(p.num_unfixable_lint_errors for p in res.paths),
    }
    print("VERIF_JSON " + json.dumps(out))


if __name__ == "__main__":
    main()
