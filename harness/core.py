"""Check life-cycle: context, violations, known findings, evidence."""
import fnmatch
import hashlib
import json
import os
import random
import time

VERIF = "/verif"
REPO = os.environ.get("VERIF_REPO", "/repo")  # the tree under verification (a scratch worktree when trying a seeded change)
EVID = os.path.join(VERIF, "evidence")
REPLAYS = os.path.join(EVID, "replays")


class Violation:
    def __init__(self, prop, key, what, replay, attrs=None, no_input=False):
        self.prop = prop
        self.key = key  # mechanism / call-site classifier, matched against known_findings.json
        self.what = what
        self.replay = replay  # JSON-serialisable description of the failing input / broken obligation
        self.attrs = attrs or {}
        self.no_input = no_input


class Ctx:
    def __init__(self, prop, tier, seed):
        self.prop = prop
        self.tier = tier
        self.seed = seed
        self.rng = random.Random(seed)
        self.t0 = time.time()
        self.violations = []
        self.broken = []  # broken proof obligations / correspondences: (name, detail)
        self.evaluations = 0
        self.nontrivial = set()
        self.samples = []
        self.dist = {}
        self.coverage_extra = {}
        self.assumptions = []
        self.obligations = 0
        self.discharged = 0
        self.axioms = {}
        self.programs = 0
        self.disagreements_checked = 0
        self.rule = ""
        self.trusted_base = []

    # ---- bookkeeping
    def case(self, nontrivial_key=None, sample=None, bucket=None):
        """Count one evaluated case. nontrivial_key: hashable identifying a distinct non-trivial case (or None)."""
        self.evaluations += 1
        if nontrivial_key is not None:
            if not isinstance(nontrivial_key, (str, int)):
                nontrivial_key = repr(nontrivial_key)
            if isinstance(nontrivial_key, str) and len(nontrivial_key) > 64:
                nontrivial_key = hashlib.sha1(nontrivial_key.encode("utf-8", "backslashreplace")).hexdigest()
            self.nontrivial.add(nontrivial_key)
        if sample is not None and len(self.samples) < 6:
            self.samples.append(sample)
        if bucket is not None:
            self.dist[bucket] = self.dist.get(bucket, 0) + 1

    def count(self, bucket, n=1):
        self.dist[bucket] = self.dist.get(bucket, 0) + n

    def violation(self, key, what, replay, attrs=None):
        # de-duplicate on (key, attrs) so one mechanism is reported once per distinct classifier
        for v in self.violations:
            if v.key == key and v.attrs == (attrs or {}):
                v.replay.setdefault("more_inputs", [])
                if len(v.replay["more_inputs"]) < 5:
                    v.replay["more_inputs"].append(replay.get("input", replay))
                v.count = getattr(v, "count", 1) + 1
                return
        self.violations.append(Violation(self.prop, key, what, dict(replay), attrs))

    def broken_obligation(self, name, detail):
        self.broken.append((name, detail))

    def elapsed(self):
        return time.time() - self.t0


def load_known():
    p = os.path.join(VERIF, "known_findings.json")
    if not os.path.exists(p):
        return []
    return json.load(open(p))


def match_known(v, known):
    for k in known:
        if k.get("status") != "open":
            continue  # "fixed" entries suppress nothing
        if k.get("property") != v.prop:
            continue
        if not fnmatch.fnmatchcase(v.key, k.get("key", "")):
            continue
        ok = True
        for a, val in (k.get("match") or {}).items():
            got = v.attrs.get(a)
            if isinstance(val, list):
                if got not in val:
                    ok = False
            elif isinstance(val, str) and isinstance(got, str):
                if not fnmatch.fnmatchcase(got, val):
                    ok = False
            elif got != val:
                ok = False
        if ok:
            return k
    return None


def _json_default(o):
    if isinstance(o, (set, frozenset)):
        return sorted(o, key=repr)
    if isinstance(o, bytes):
        return o.decode("latin-1")
    if isinstance(o, slice):
        return [o.start, o.stop]
    return repr(o)


def write_replay(v):
    os.makedirs(REPLAYS, exist_ok=True)
    blob = json.dumps({"property": v.prop, "key": v.key, "what": v.what, "attrs": v.attrs, "replay": v.replay},
                      default=_json_default, sort_keys=True, indent=1)
    h = hashlib.sha1(blob.encode()).hexdigest()[:12]
    path = os.path.join(REPLAYS, "%s-%s.json" % (v.prop, h))
    with open(path, "w") as f:
        f.write(blob)
    return path


def finish(ctx, level, checker_cmd):
    """Print VIOLATION / KNOWN-FINDING lines, write evidence, return exit code."""
    known = load_known()
    unlisted = 0
    listed = 0
    concrete = [v for v in ctx.violations]
    lines = []
    for v in concrete:
        k = match_known(v, known)
        if k is not None:
            listed += 1
            lines.append("KNOWN-FINDING: property=%s %s [%s] (%s)" % (v.prop, k.get("what", v.what), k.get("id", "?"), v.what))
        else:
            unlisted += 1
            path = write_replay(v)
            lines.append("VIOLATION property=%s replay=%s" % (v.prop, path))
            lines.append("  what: %s" % v.what)
    if ctx.broken and unlisted == 0:
        # a proof obligation / correspondence no longer checks and the search found no (unlisted) failing input
        for name, detail in ctx.broken:
            v = Violation(ctx.prop, "broken-obligation", "obligation no longer checks: %s" % name,
                          {"obligation": name, "detail": detail[-4000:] if isinstance(detail, str) else detail}, no_input=True)
            path = write_replay(v)
            lines.append("VIOLATION property=%s replay=%s no-failing-input-found" % (ctx.prop, path))
            lines.append("  what: %s" % v.what)
            unlisted += 1
    for l in lines:
        print(l)
    cov = {
        "evaluations": ctx.evaluations,
        "distinct_nontrivial": len(ctx.nontrivial),
        "rule": ctx.rule,
        "samples": ctx.samples[:6] or ["<none>"],
        "obligations": ctx.obligations,
        "discharged": ctx.discharged,
        "checker_cmd": checker_cmd,
        "trusted_base": ctx.trusted_base,
        "axioms_per_theorem": ctx.axioms,
        "input_distribution": ctx.dist,
        "broken_obligations": [b[0] for b in ctx.broken],
        "known_findings_matched": listed,
    }
    if level == "translation_validation":
        cov["programs"] = ctx.programs or ctx.evaluations
        cov["disagreements_checked"] = ctx.disagreements_checked
    cov.update(ctx.coverage_extra)
    ev = {
        "property_id": ctx.prop,
        "tier": ctx.tier,
        "seed": ctx.seed,
        "level": level,
        "coverage": cov,
        "assumptions": ctx.assumptions,
        "wall_s": round(ctx.elapsed(), 2),
        "violations": unlisted,
    }
    os.makedirs(EVID, exist_ok=True)
    tmp = os.path.join(EVID, ".%s.json.tmp" % ctx.prop)
    with open(tmp, "w") as f:
        json.dump(ev, f, indent=1, default=_json_default, sort_keys=True)
    os.replace(tmp, os.path.join(EVID, "%s.json" % ctx.prop))
    print("%s tier=%s seed=%d evaluations=%d nontrivial=%d obligations=%d/%d known=%d violations=%d wall=%.1fs" % (
        ctx.prop, ctx.tier, ctx.seed, ctx.evaluations, len(ctx.nontrivial), ctx.discharged, ctx.obligations, listed, unlisted,
        ctx.elapsed()))
    return 1 if unlisted else 0
