"""./check Cxx [--tier quick|thorough] [--replay file]"""
import argparse
import importlib
import json
import os
import sys
import traceback

from harness import coq, core

ALLOWED_AXIOMS = {
    # axioms declared by the standard library that a property theorem may depend on (named in DESIGN §40)
}


def main():
    ap = argparse.ArgumentParser()
    ap.add_argument("prop")
    ap.add_argument("--tier", default=os.environ.get("VERIF_TIER", "quick"))
    ap.add_argument("--replay", default=None)
    args = ap.parse_args()
    prop = args.prop.upper()
    tier = args.tier if args.tier in ("quick", "thorough") else "quick"
    try:
        seed = int(os.environ.get("VERIF_SEED", "0"))
    except ValueError:
        seed = 0
    mod = importlib.import_module("harness.props.%s" % prop.lower())
    ctx = core.Ctx(prop, tier, seed)
    ctx.trusted_base = list(getattr(mod, "TRUSTED_BASE", [])) + [
        "Coq 8.16.1 kernel + vm_compute (no native_compute)",
        "harness/coq.py term printer/parser; Python harness generators and adapters",
    ]
    ctx.assumptions = list(getattr(mod, "ASSUMPTIONS", []))
    ctx.rule = getattr(mod, "RULE", "")

    if args.replay:
        data = json.load(open(args.replay))
        if hasattr(mod, "replay"):
            return mod.replay(ctx, data)
        print(json.dumps(data, indent=1)[:4000])
        return 0

    # 1. translators (regenerate generated/*.v from /repo's working tree)
    for gen in getattr(mod, "GENERATORS", []):
        try:
            gen(ctx)
        except Exception as e:  # fail closed
            ctx.broken_obligation("translator %s.%s" % (gen.__module__, gen.__name__),
                                  "".join(traceback.format_exception(type(e), e, e.__traceback__)))

    # 2. build
    targets = list(getattr(mod, "COQ_TARGETS", []))
    coq_ok = True
    if targets:
        ok, log = coq.build(targets)
        if not ok:
            coq_ok = False
            f, line = coq.failing_file(log)
            ctx.broken_obligation("coq build %s:%s" % (f, line), log[-3000:])

    # 3. audit
    hits = coq.audit_forbidden(coq.all_v_files())
    for rel, line, txt in hits:
        ctx.broken_obligation("audit: forbidden vernacular in %s:%d" % (rel, line), txt)
    prop_files = getattr(mod, "PROPERTY_FILES", [])
    if coq_ok:
        for pf in prop_files:
            names = coq.theorem_names(pf)
            modname = pf.replace("theories/", "").replace("generated/", "").replace(".v", "").replace("/", ".")
            if pf.startswith("generated/"):
                modname = "From SFGen Require Import %s." % modname
                res = coq.print_assumptions_raw(modname, names) if hasattr(coq, "print_assumptions_raw") else {}
            else:
                res = coq.print_assumptions(modname, names)
            for n in names:
                ax = res.get(n, ["<missing>"])
                ctx.obligations += 1
                ctx.axioms[n] = ax
                if all(a in ALLOWED_AXIOMS for a in ax):
                    ctx.discharged += 1
                else:
                    ctx.broken_obligation("Print Assumptions %s" % n, "depends on: %s" % ax)
    else:
        for pf in prop_files:
            try:
                ctx.obligations += len(coq.theorem_names(pf))
            except OSError:
                pass

    # 4. correspondence + monitor
    try:
        mod.run(ctx, coq_ok)
    except coq.CoqError as e:
        ctx.broken_obligation("model evaluation: %s" % e, e.log[-3000:])
    except Exception as e:
        ctx.broken_obligation("harness error in %s: %r" % (prop, e),
                              "".join(traceback.format_exception(type(e), e, e.__traceback__)))

    # 5/6. report
    level = getattr(mod, "LEVEL", "proof")
    cmd = "./check %s --tier %s  (make -f Makefile.coq %s; coqc Print Assumptions; harness.props.%s)" % (
        prop, tier, " ".join(targets), prop.lower())
    return core.finish(ctx, level, cmd)


if __name__ == "__main__":
    sys.exit(main())
