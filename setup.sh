#!/bin/bash
# MANIFEST.setup_cmd: regenerate translator output from /repo, build every .vo (full build, no -vos), build OCaml drivers if any.
set -e
cd /verif
export PYTHONPATH=/repo/src:/verif PYTHONHASHSEED=0 PYTHONDONTWRITEBYTECODE=1
/venv/bin/python -m harness.gen_all || echo "setup: a translator failed (the affected checks will report it)"
./tools/mkproject.sh
cd coq
timeout 3000 make -f Makefile.coq -j16 -k > /var/tmp/verif-setup-build.log 2>&1 || { tail -40 /var/tmp/verif-setup-build.log; echo "setup: coq build had failures (the affected checks will report them)"; }
tail -3 /var/tmp/verif-setup-build.log
exit 0
